"""Bounded exhaustive model checking of zyskarch/pytestarch (see /verif/DESIGN.md)."""
