"""C01 - module-rule verdicts equal the documented semantics (engine E1, DESIGN §4 C01)."""

from __future__ import annotations

from ..common import ERR, FAIL, PASS, run_rule
from ..engine import Result
from ..impl import BIG_TREES, build, mkrule, plan_graph_shards, rule_specs, shard_graphs
from ..refmodel import rule_three_valued, spec_to_json, truncate
from ..spaces import renamed_graph, trees

ID = "C01"
RULE = (
    "every realizable architecture of the stated tree/edge bounds x every rule of R(G) "
    "(3 verbs x import/be-imported-by x with/without except, named / sub-modules-of on both "
    "sides, 1-3 pairwise unrelated subjects and objects, both 'anything' aliases); a case is "
    "one (architecture, rule) pair, all pairs are distinct by construction; non-trivial = the "
    "architecture has at least one import edge and all readings of the documentation agree"
)
ASSUMPTIONS = [
    "architectures are realizable: importers are leaf modules (files); packages with children import only in the separate space N (module file next to a package of the same stem) and only modules unrelated to them",
    "strict oracle only on pairwise unrelated subject/object identifiers; cases where the documentation admits two readings are counted as ambiguous and not judged",
    "evaluable built through the internal constructor EvaluableArchitectureGraph(NetworkxGraph(...)); bound to the scanner by the seam-equivalence part of C04",
]


def plan(tier, seed):
    if tier == "quick":
        shards = plan_graph_shards("A", n_max=4, chunk=16)
        for naming in ("adversarial", "selfprefix", "hyphen"):
            shards += [dict(s, naming=naming, bound=s["bound"] + " naming=" + naming) for s in plan_graph_shards("A", n_max=4, chunk=16)]
        shards += plan_graph_shards("B", n_max=5, n_min=5, k=2, parts=4)
        shards += plan_graph_shards("B", k=2, parts=8, with_ext=True, tree_list=list(trees(4)))
        shards += plan_graph_shards("N", n_max=5, n_min=3, k=2, parts=2)
        shards += [dict(s, phantom=True, bound=s["bound"] + " + imports of non-modules") for s in plan_graph_shards("A", n_max=4, chunk=16)]
        shards += [dict(s, implicit=True, bound=s["bound"] + " ancestors implicit") for s in plan_graph_shards("A", n_max=4, chunk=16)]
    else:
        shards = plan_graph_shards("A", n_max=5, chunk=32)
        # other namings: the complete four-module space and every five-module architecture with <= 3 imports
        for naming in ("adversarial", "selfprefix", "unicode", "hyphen"):
            shards += [dict(s, naming=naming, bound=s["bound"] + " naming=" + naming)
                       for s in plan_graph_shards("A", n_max=4, chunk=16) + plan_graph_shards("B", n_max=5, n_min=5, k=3, parts=4)]
        shards += plan_graph_shards("B", n_max=6, n_min=6, k=3, parts=16)
        shards += plan_graph_shards("B", k=3, parts=16, with_ext=True, tree_list=list(trees(5)))
        shards += plan_graph_shards("B", k=2, parts=16, with_ext=True, tree_list=list(BIG_TREES))
        shards += plan_graph_shards("N", n_max=6, n_min=3, k=3, parts=8)
        shards += [dict(s, phantom=True, bound=s["bound"] + " + imports of non-modules")
                   for s in plan_graph_shards("A", n_max=4, chunk=16) + plan_graph_shards("B", n_max=5, n_min=5, k=3, parts=4)]
        shards += [dict(s, implicit=True, bound=s["bound"] + " ancestors implicit")
                   for s in plan_graph_shards("A", n_max=4, chunk=16) + plan_graph_shards("B", n_max=5, n_min=5, k=3, parts=4)]
    # level-limited architectures are evaluable architectures too: package importers (space N) flattened to every
    # level; the rules are judged against the reference model on the quotient
    shards += [dict(s, limited=True, bound=s["bound"] + " level-limited")
               for s in plan_graph_shards("N", n_max=5 if tier == "quick" else 6, n_min=3, k=1 if tier == "quick" else 2, parts=2)]
    req = []
    for verb in ("should", "should_only", "should_not"):
        for exc in (False, True):
            req += [f"{verb}/{exc}/PASS", f"{verb}/{exc}/FAIL"]
    return {"shards": shards, "require_nonzero": req + ["anything/PASS", "anything/FAIL"]}


_SPEC_CACHE = {}


def _specs(ns):
    key = tuple(ns)
    if key not in _SPEC_CACHE:
        big = len(ns) > 7
        _SPEC_CACHE.clear()
        _SPEC_CACHE[key] = rule_specs(ns, max_s=2 if big else 3, max_o=2 if big else 3, overlap=not big)
    return _SPEC_CACHE[key]


def judge(ns, I, spec, ev, seed, res: Result | None):
    """Evaluate one (architecture, rule) case; returns a violation tuple or None."""
    Iset = set(I)
    _, _, _, verdicts = rule_three_valued(ns, Iset, spec)
    got = run_rule(mkrule(spec, seed), ev)
    shape = "anything" if spec.get("anything") else f"{spec['verb']}/{spec['exc']}"
    if got[0] == ERR:
        return ("unexpected-exception", "PASS or FAIL", got[1])
    if len(verdicts) != 1:
        if res is not None:
            res.stats["ambiguous"] += 1
        return None
    exp = PASS if next(iter(verdicts)) else FAIL
    if res is not None:
        res.traces += 1
        res.stats[f"{shape}/{exp}"] += 1
        if I:
            res.nontrivial += 1
    if got[0] != exp:
        return ("verdict", exp, got[0] + (": " + got[1] if got[1] else ""))
    return None


def quotient(ns, I, k):
    """Modules and imports of the architecture flattened to level k.  An import that would run from a module to its
    own direct child coincides with the hierarchy edge and is not representable (DESIGN §8): it is left out."""
    qn = sorted({truncate(n, k) for n in ns})
    qi = sorted({(truncate(u, k), truncate(v, k)) for u, v in I})
    qi = [(u, v) for u, v in qi if u != v and v.rsplit(".", 1)[0] != u]
    return qn, qi


def run_limited_shard(shard, seed, res):
    for ns, I in shard_graphs(shard, seed):
        depth = max(n.count(".") for n in ns)
        for k in range(1, depth):
            qn, qi = quotient(ns, I, k)
            ev = build(ns, I, seed, level_limit=k)
            res.states += 1
            for spec in _specs(qn):
                res.transitions += 1
                res.evaluations += 1
                v = judge(qn, qi, spec, ev, seed, res)
                if v:
                    res.violation(v[0], {"modules": ns, "imports": I, "level_limit": k, "rule": spec_to_json(spec), "seed": seed}, v[1], v[2])
    return res


def run_shard(shard, tier, seed):
    res = Result(shard["bound"])
    if shard.get("limited"):
        return run_limited_shard(shard, seed, res)
    for ns, I in shard_graphs(shard, seed):
        ns, I = renamed_graph(ns, I, shard.get("naming", "identity"))
        ev = build(ns, I, seed, phantom=shard.get("phantom", False), implicit=shard.get("implicit", False))
        res.states += 1
        specs = _specs(ns)
        for spec in specs:
            res.transitions += 1
            res.evaluations += 1
            v = judge(ns, I, spec, ev, seed, res)
            if v:
                res.violation(
                    v[0], {"modules": ns, "imports": I, "rule": spec_to_json(spec), "seed": seed, "phantom": shard.get("phantom", False), "implicit": shard.get("implicit", False)},
                    v[1], v[2],
                )
        if res.states == 1 and I:
            res.sample({"modules": ns, "imports": I, "rule": spec_to_json(specs[0])})
    return res


def _check_case(case):
    ns, I, spec = case["modules"], [tuple(e) for e in case["imports"]], case["rule"]
    if case.get("level_limit") is not None:
        qn, qi = quotient(ns, I, case["level_limit"])
        return judge(qn, qi, spec, build(ns, I, case.get("seed", 0), level_limit=case["level_limit"]), case.get("seed", 0), None)
    ev = build(ns, I, case.get("seed", 0), phantom=case.get("phantom", False), implicit=case.get("implicit", False))
    return judge(ns, I, spec, ev, case.get("seed", 0), None)


def minimise(v):
    """Greedy: drop import edges, then modules not mentioned, while the disagreement stays."""
    case = dict(v["case"])
    kind = v["kind"]
    changed = True
    while changed:
        changed = False
        for e in list(case["imports"]):
            trial = dict(case, imports=[x for x in case["imports"] if x != e])
            r = _check_case(trial)
            if r and r[0] == kind:
                case, changed = trial, True
    r = _check_case(case)
    spec = case["rule"]
    v = dict(v, case=case, expected=r[1], observed=r[2])
    shape = "anything" if spec.get("anything") else f"{spec['verb']}/{spec['exc']}"
    v["signature"] = (
        f"{kind}:{shape}:{'import' if spec['imp'] else 'imported'}:{spec['sk']}/{spec.get('ok')}:"
        f"edges{len(case['imports'])}:{r[1]}"
    )
    return v


def replay(rec):
    r = _check_case(rec["case"])
    if r:
        return [{"kind": r[0], "case": rec["case"], "expected": r[1], "observed": r[2]}]
    return []
