"""C02 - every import statement in a scanned file becomes an import edge, only those (E3)."""

from __future__ import annotations

import functools
import itertools
import os

from ..common import remove_scratch, run_rule, scratch_dir, write_tree
from ..engine import Result
from ..scan import TEMPLATES, chains, check_alphabet, innermost_slot, is_ancestor, observed, place, scan

from pytestarch import Rule  # noqa: E402

ID = "C02"
RULE = (
    "(1) every chain of statement-list positions up to the nesting bound (position alphabet "
    "derived by introspection from the interpreter's ast grammar: function/async function/class "
    "bodies, both branches of for/async for/while/if, with/async with, every clause of try and "
    "try*, match cases) x every import form (import a.b.c [as x], import m1, m2, from P import "
    "name / submodule / submodule as s, name / *, relative forms with level 1 and 2) x three "
    "importer kinds (plain file, file one package deeper, __init__.py); every case is a real file "
    "in a real project on tmpfs scanned with get_evaluable_architecture, cases batched per "
    "project with one importer file each; (2) every (importer file, target module, form, "
    "module_path) combination over a fixed 10-module skeleton, each scanned on its own. "
    "A case is one importer file; non-trivial = the statement sits below module level or names a "
    "sub module via 'from'"
)
ASSUMPTIONS = [
    "A1 names contain no '.', A2 no symlinks, A3 no directory and file with the same stem side by side, A4 relative imports never climb above root_path",
    "edges from a file to its own ancestor packages are ignored in both directions (outside the claim)",
    "'from P import n' with P.n a scanned module: edge to P.n is required, an additional edge to P is tolerated",
    "ast.Interactive is not reachable from a scanned file",
]

C = "top.c"

# form id -> (statement, must targets, may targets) per importer kind; {L} = relative level dots
ABS_FORMS = [
    ("import-abs", "import top.c.t", {"t"}, set()),
    ("import-abs-as", "import top.c.t as x", {"t"}, set()),
    ("import-list", "import os, top.c.t", {"t"}, set()),
    ("import-two", "import top.c.t, top.c.p.s", {"t", "p.s"}, set()),
    ("import-pkg", "import top.c.p", {"p"}, set()),
    ("import-deep", "import top.c.p.s", {"p.s"}, set()),
    ("from-name", "from top.c.t import name", {"t"}, set()),
    ("from-sub-of-ancestor", "from top.c import t", {"t"}, set()),
    ("from-sub", "from top.c.p import s", {"p.s"}, {"p"}),
    ("from-sub-as-and-name", "from top.c.p import s as z, name", {"p.s", "p"}, set()),
    ("from-two-subs", "from top.c.p import s, s2", {"p.s", "p.s2"}, {"p"}),
    ("from-sub-then-other-package-sub", "from top.c import t, p", {"t", "p"}, set()),
    ("from-star", "from top.c.p import *", {"p"}, set()),
    ("from-sub-nsp", "from top.c.q import u", {"q.u"}, {"q"}),
    # external names that also exist as internal module names directly below the root: no internal edge
    ("external-shadowed-by-internal-name", "import os", set(), set()),
    ("external-from-shadowed-by-internal-name", "from json import tool", set(), set()),
    ("external-dotted-shadowed", "import json.tool", set(), set()),
]
REL_FORMS = [
    ("rel-import", "from {L} import t", {"t"}, set()),
    ("rel-import-two", "from {L} import t, name", {"t"}, set()),
    ("rel-from-name", "from {L}t import name", {"t"}, set()),
    ("rel-from-sub", "from {L}p import s", {"p.s"}, {"p"}),
    ("rel-from-two-subs", "from {L}p import s, s2", {"p.s", "p.s2"}, {"p"}),
    ("rel-from-deep", "from {L}p.s import name", {"p.s"}, set()),
    ("rel-from-star", "from {L}p import *", {"p"}, set()),
]
KINDS = {"flat": ".", "deep": "..", "init": ".."}
REPRESENTATIVE = {"import-abs", "from-sub", "rel-from-name"}


def forms_for(kind):
    out = list(ABS_FORMS)
    for fid, stmt, must, may in REL_FORMS:
        out.append((fid, stmt.replace("{L}", KINDS[kind]), must, may))
    return out


def importer_path(kind, i):
    if kind == "flat":
        return f"top/c/m{i}.py", f"{C}.m{i}"
    if kind == "deep":
        return f"top/c/d/n{i}.py", f"{C}.d.n{i}"
    return f"top/c/k{i}/__init__.py", f"{C}.k{i}.__init__"


BASE_FILES = {
    "top/__init__.py": "",
    "top/c/__init__.py": "",
    "top/c/t.py": "name = 1\n",
    "top/c/p/__init__.py": "name = 1\n",
    "top/c/p/s.py": "name = 1\n",
    "top/c/p/s2.py": "name = 1\n",
    "top/c/q/u.py": "",
    "top/c/d/__init__.py": "",
    "top/os.py": "",
    "top/json/__init__.py": "",
    "top/json/tool.py": "",
}


@functools.lru_cache(maxsize=None)
def all_cases(tier):
    depth = 2 if tier == "quick" else 4
    cases = []
    for chain in chains(depth):
        for kind in KINDS:
            for fid, stmt, must, may in forms_for(kind):
                if len(chain) == 4 and (fid != "import-abs" or kind != "flat"):
                    continue
                if len(chain) == 3 and kind != "flat" and fid not in REPRESENTATIVE:
                    continue
                if len(chain) == 2 and tier == "quick" and kind != "flat" and fid not in REPRESENTATIVE:
                    continue
                cases.append((chain, kind, fid, stmt, sorted(must), sorted(may)))
    return cases


def plan(tier, seed):
    check_alphabet()
    n = len(all_cases(tier))
    per = 400
    shards = [{"part": "positions", "lo": lo, "hi": min(n, lo + per), "bound": f"positions nesting<={2 if tier == 'quick' else 4}"}
              for lo in range(0, n, per)]
    shards.append({"part": "skeleton", "bound": "skeleton triples"})
    npairs = len(pair_cases())
    for lo in range(0, npairs, 200):
        shards.append({"part": "pairs", "lo": lo, "hi": lo + 200, "bound": "two statements in one file"})
    return {"shards": shards, "require_nonzero": ["edge-required", "nested", "orelse-or-handler", "skeleton", "two-statements"]}


def check_importer(mod, obs_edges, must, may):
    out_edges = {v for (u, v) in obs_edges if u == mod and not is_ancestor(v, mod)}
    must_abs = {f"{C}.{m}" for m in must}
    may_abs = must_abs | {f"{C}.{m}" for m in may}
    missing = sorted(must_abs - out_edges)
    extra = sorted(out_edges - may_abs)
    return missing, extra


def run_positions(shard, tier, res):
    cases = all_cases(tier)[shard["lo"] : shard["hi"]]
    base = scratch_dir(f"c02-{shard['lo']}")
    try:
        files = dict(BASE_FILES)
        meta = []
        for i, (chain, kind, fid, stmt, must, may) in enumerate(cases):
            rel, mod = importer_path(kind, i)
            src = place(stmt, chain)
            got_slot = innermost_slot(src)
            want = chain[-1].split("@")[0] if chain else "Module.body"
            if got_slot != [want]:
                raise RuntimeError(f"harness fault: import sits in {got_slot}, intended {want}:\n{src}")
            files[rel] = src
            meta.append((mod, rel, chain, kind, fid, stmt, must, may, src))
        write_tree(base, files)
        root = os.path.join(base, "top")
        ev = scan(root, root)
        mods, edges, _ = observed(ev)
        res.transitions += 1
        importers = {m[0] for m in meta}
        # converse: nothing but the importer files imports anything
        stray = sorted((u, v) for (u, v) in edges if u not in importers and not is_ancestor(v, u))
        if stray:
            res.violation("import-edge-without-statement", {"part": "positions", "lo": shard["lo"], "hi": shard["hi"], "tier": tier},
                          "no import edges from files without import statements", [list(e) for e in stray[:5]])
        for mod, rel, chain, kind, fid, stmt, must, may, src in meta:
            res.states += 1
            res.evaluations += 1
            res.traces += 1
            res.stats["edge-required"] += len(must)
            if chain:
                res.stats["nested"] += 1
            if any(not k.endswith(".body") or k.startswith(("ExceptHandler", "match_case")) for k in chain):
                res.stats["orelse-or-handler"] += 1
            if chain or may:
                res.nontrivial += 1
            if mod not in mods:
                res.violation("importer-module-missing", {"part": "single", "chain": list(chain), "kind": kind, "form": fid, "stmt": stmt},
                              mod, "not a module")
                continue
            missing, extra = check_importer(mod, edges, must, may)
            if missing:
                res.violation("import-statement-without-edge",
                              {"part": "single", "chain": list(chain), "kind": kind, "form": fid, "stmt": stmt, "must": must, "may": may},
                              {"edges_to": [f"{C}.{m}" for m in must]}, {"missing": missing, "source": src})
            elif extra:
                res.violation("import-edge-without-statement",
                              {"part": "single", "chain": list(chain), "kind": kind, "form": fid, "stmt": stmt, "must": must, "may": may},
                              {"edges_to": [f"{C}.{m}" for m in must]}, {"extra": extra, "source": src})
            elif len(res.samples) < 1 and len(chain) == 2:
                res.sample({"file": rel, "source": src, "edges": [f"{mod} -> {C}.{m}" for m in must]})
    finally:
        remove_scratch(base)


# ------------------------------------------------------------------------------ skeleton

SKELETON = {
    "top/__init__.py": "",
    "top/a.py": "",
    "top/b/__init__.py": "",
    "top/b/c.py": "",
    "top/b/e/__init__.py": "",
    "top/b/e/f.py": "",
    "top/b/g/h.py": "",
    "top/x.py": "",
    # packages that contain a module carrying the package's own name (config/config.py)
    "top/b/b.py": "",
    "top/b/e/e.py": "",
    "top/top.py": "",
    # siblings whose names extend another module's name as a plain string (x / xy, c / cx)
    "top/xy.py": "",
    "top/b/cx.py": "",
    # a package directory that holds nothing but another package
    "top/n/o/p.py": "",
}
SK_MODULES = ["top", "top.__init__", "top.a", "top.b", "top.b.__init__", "top.b.c", "top.b.e", "top.b.e.__init__",
              "top.b.e.f", "top.b.g", "top.b.g.h", "top.x", "top.b.b", "top.b.e.e", "top.top", "top.xy", "top.b.cx", "top.n", "top.n.o", "top.n.o.p"]


def package_of(file_mod):
    return file_mod.rsplit(".", 1)[0]


def skeleton_cases():
    """(importer file rel, importer module, statement, must, may, module_path rel, spelling)."""
    files = [(rel, "top." + rel[4:-3].replace("/", ".")) for rel in SKELETON]
    files = [(r, m) for r, m in files]
    out = []
    for rel, imod in files:
        pkg = package_of(imod)
        for target in SK_MODULES:
            if target == imod or imod.startswith(target + "."):
                continue  # the file itself / its own ancestor packages: outside the claim
            parent, _, leaf = target.rpartition(".")
            forms = [("import", f"import {target}", {target}, set())]
            forms.append(("from", f"from {parent} import {leaf}", {target}, {parent}))
            forms.append(("from-name", f"from {target} import name", {target}, set()))
            # relative spelling where the target lies below an ancestor package of the importer
            anc = pkg
            level = 1
            while anc:
                if target.startswith(anc + "."):
                    relname = target[len(anc) + 1 :]
                    rp, _, rl = relname.rpartition(".")
                    dots = "." * level
                    forms.append(("rel-from", f"from {dots}{rp} import {rl}", {target}, {anc + "." + rp} if rp else set()))
                    forms.append(("rel-from-name", f"from {dots}{relname} import name", {target}, set()))
                    break
                if "." not in anc:
                    break
                anc = anc.rsplit(".", 1)[0]
                level += 1
            for fid, stmt, must, may in forms:
                out.append((rel, imod, fid, stmt, must, may))
    return out


def run_skeleton(res, only=None):
    base = scratch_dir("c02-skel")
    try:
        write_tree(base, SKELETON)
        root = os.path.join(base, "top")
        for rel, imod, fid, stmt, must, may in skeleton_cases():
            for mp_rel in ("top", "top/b"):
                mp = os.path.join(base, mp_rel)
                mp_mod = mp_rel.replace("/", ".")
                if not (imod.startswith(mp_mod + ".")):
                    continue
                for spelling in ("qualified", "relative-to-module-path-parent", "externals-included-with-exclusion-matching-internal-names"):
                    s = stmt
                    opts = {}
                    if spelling.startswith("externals"):
                        # option combination: external libraries included and an external exclusion pattern that
                        # textually matches internal module names; internal imports must be unaffected
                        opts = {"exclude_external_libraries": False, "external_exclusions": ("*b*", "*top*")}
                        spelling_key = spelling
                    if spelling == "relative-to-module-path-parent":
                        if mp_rel == "top" or fid.startswith("rel") or "top.b" not in stmt:
                            continue
                        s = stmt.replace("top.b", "b")
                    key = [rel, fid, s, mp_rel] + ([spelling] if opts else [])
                    if only is not None and only != key:
                        continue
                    path = os.path.join(base, rel)
                    with open(path, "w") as f:
                        f.write(s + "\n")
                    try:
                        ev = scan(root, mp, **opts)
                        mods, edges, _ = observed(ev)
                        if opts:
                            res.stats["skeleton:externals-included"] += 1
                    finally:
                        with open(path, "w") as f:
                            f.write("")
                    res.states += 1
                    res.transitions += 1
                    res.evaluations += 1
                    res.traces += 1
                    res.nontrivial += 1
                    res.stats["skeleton"] += 1
                    inside = lambda m: m == mp_mod or m.startswith(mp_mod + ".")  # noqa: E731
                    must_in = {m for m in must if inside(m)}
                    may_in = must_in | {m for m in may if inside(m)}
                    out_edges = {v for (u, v) in edges if u == imod and not is_ancestor(v, imod)}
                    stray = {(u, v) for (u, v) in edges if u != imod and not is_ancestor(v, u)}
                    case = {"part": "skeleton", "key": key}
                    # the same fact seen through the public query API: the importer imports the named module and
                    # no sibling whose name merely starts with the same characters
                    if not opts and len(must_in) == 1:
                        t = next(iter(must_in))
                        sibs = [m for m in mods if m != t and (m.startswith(t) or t.startswith(m)) and not is_ancestor(m, t) and not is_ancestor(t, m)
                                and m != imod and not is_ancestor(m, imod) and not is_ancestor(imod, m)]
                        bad = None
                        r = run_rule(Rule().modules_that().are_named(imod).should().import_modules_that().are_named(t), ev)
                        if r[0] != "PASS":
                            bad = (f"'{imod} should import {t}' passes", list(r))
                        for sib in sibs:
                            r = run_rule(Rule().modules_that().are_named(imod).should_not().import_modules_that().are_named(sib), ev)
                            res.stats["skeleton:rule-on-prefix-sibling"] += 1
                            if r[0] != "PASS":
                                bad = (f"'{imod} should not import {sib}' passes", list(r))
                        if bad:
                            res.violation("import-seen-through-rules-differs-from-statement", case, bad[0], bad[1])
                            continue
                    if must_in - out_edges:
                        res.violation("import-statement-without-edge", case, sorted(must_in), {"missing": sorted(must_in - out_edges), "edges": sorted(out_edges)})
                    elif out_edges - may_in or stray:
                        res.violation("import-edge-without-statement", case, sorted(may_in), {"extra": sorted(out_edges - may_in), "stray": sorted(map(list, stray))})
    finally:
        remove_scratch(base)


def pair_cases():
    """Two import statements in one file: the same name imported from two different modules, two
    star imports, two plain imports (each statement must yield its own edge)."""
    files = [(rel, "top." + rel[4:-3].replace("/", ".")) for rel in SKELETON]
    targets = ["top.a", "top.b.c", "top.b.e.f", "top.b.g.h", "top.x", "top.b.e", "top.b.cx"]
    out = []
    for rel, imod in files:
        ts = [t for t in targets if t != imod and not imod.startswith(t + ".")]
        for t1, t2 in itertools.permutations(ts, 2):
            out.append((rel, imod, "same-name", f"from {t1} import helper\nfrom {t2} import helper", {t1, t2}))
            out.append((rel, imod, "same-name-nested", f"from {t1} import helper\ndef f():\n    from {t2} import helper", {t1, t2}))
            out.append((rel, imod, "star", f"from {t1} import *\nfrom {t2} import *", {t1, t2}))
            out.append((rel, imod, "same-alias", f"import {t1} as m\nimport {t2} as m", {t1, t2}))
            p1, _, l1 = t1.rpartition(".")
            p2, _, l2 = t2.rpartition(".")
            if p1 == p2:
                out.append((rel, imod, "same-package-two-statements", f"from {p1} import {l1}\ndef f():\n    from {p2} import {l2}", {t1, t2}))
    return out


def run_pairs(shard, res, only=None):
    base = scratch_dir(f"c02-pairs-{shard.get('lo', 0)}")
    try:
        write_tree(base, SKELETON)
        root = os.path.join(base, "top")
        cases = pair_cases()
        for rel, imod, fid, src, must in cases[shard.get("lo", 0) : shard.get("hi")]:
            key = [rel, fid, src]
            if only is not None and only != key:
                continue
            path = os.path.join(base, rel)
            with open(path, "w") as f:
                f.write(src + "\n")
            try:
                mods, edges, _ = observed(scan(root, root))
            finally:
                with open(path, "w") as f:
                    f.write("")
            res.states += 1
            res.transitions += 1
            res.evaluations += 1
            res.traces += 1
            res.nontrivial += 1
            res.stats["two-statements"] += 1
            out_edges = {v for (u, v) in edges if u == imod and not is_ancestor(v, imod)}
            stray = {(u, v) for (u, v) in edges if u != imod and not is_ancestor(v, u)}
            case = {"part": "pairs", "key": key}
            if must - out_edges:
                res.violation("import-statement-without-edge", case, sorted(must), {"missing": sorted(must - out_edges), "edges": sorted(out_edges)})
            elif out_edges - must or stray:
                res.violation("import-edge-without-statement", case, sorted(must), {"extra": sorted(out_edges - must), "stray": sorted(map(list, stray))})
    finally:
        remove_scratch(base)


def run_shard(shard, tier, seed):
    res = Result(shard["bound"])
    if shard["part"] == "pairs":
        run_pairs(shard, res)
        res.sample({"file": "top/a.py", "source": "from top.b.c import helper\nfrom top.x import helper", "edges": ["top.a -> top.b.c", "top.a -> top.x"]})
        return res
    if shard["part"] == "positions":
        run_positions(shard, tier, res)
    else:
        run_skeleton(res)
        res.sample({"skeleton": sorted(SKELETON), "example": ["top/b/c.py", "from .e import f", "module_path=top/b"]})
    return res


def _check_single(case):
    base = scratch_dir("c02-replay")
    try:
        files = dict(BASE_FILES)
        rel, mod = importer_path(case["kind"], 0)
        files[rel] = place(case["stmt"], tuple(case["chain"]))
        write_tree(base, files)
        root = os.path.join(base, "top")
        mods, edges, _ = observed(scan(root, root))
        missing, extra = check_importer(mod, edges, set(case["must"]), set(case["may"]))
        if missing:
            return ("import-statement-without-edge", case["must"], {"missing": missing, "source": files[rel]})
        if extra:
            return ("import-edge-without-statement", case["must"], {"extra": extra, "source": files[rel]})
        return None
    finally:
        remove_scratch(base)


def _check_case(case):
    if case.get("part") == "single":
        return _check_single(case)
    res = Result()
    if case.get("part") == "skeleton":
        run_skeleton(res, only=case["key"])
    elif case.get("part") == "pairs":
        run_pairs({}, res, only=case["key"])
    else:
        run_positions({"lo": case["lo"], "hi": case["hi"]}, case["tier"], res)
    if res.violations:
        v = res.violations[0]
        return (v["kind"], v["expected"], v["observed"])
    return None


def minimise(v):
    v = dict(v)
    c = v["case"]
    if c.get("part") == "single":
        chain = list(c["chain"])
        # drop chain elements while the violation stays
        changed = True
        while changed:
            changed = False
            for i in range(len(chain)):
                trial = dict(c, chain=chain[:i] + chain[i + 1 :])
                r = _check_single(trial)
                if r and r[0] == v["kind"]:
                    chain = trial["chain"]
                    c = trial
                    changed = True
                    break
        r = _check_single(c)
        v.update(case=c, expected=r[1], observed=r[2])
        if chain:
            v["signature"] = f"{v['kind']}:{'>'.join(chain)}"
        else:
            v["signature"] = f"{v['kind']}:module-level:{c['form']}:{c['kind']}"
    elif c.get("part") == "pairs":
        v["signature"] = f"{v['kind']}:two-statements:{c['key'][1]}"
    elif c.get("part") == "skeleton":
        v["signature"] = f"{v['kind']}:skeleton:{c['key'][1]}:{c['key'][3]}"
    else:
        v["signature"] = f"{v['kind']}:stray"
    return v


def replay(rec):
    r = _check_case(rec["case"])
    if r:
        return [{"kind": r[0], "case": rec["case"], "expected": r[1], "observed": r[2]}]
    return []
