"""C03 - violation reports name exactly the offending / missing imports (engine E1)."""

from __future__ import annotations

from ..common import ERR, FAIL, run_rule
from ..engine import Result
from ..impl import BIG_TREES, build, mkrule, plan_graph_shards, rule_specs, shard_graphs
from ..refmodel import (
    S,
    Unparsable,
    parse_rule_message,
    rule_expectation,
    rule_readings,
    spec_to_json,
)
from ..spaces import renamed_graph, trees

from pytestarch.eval_structure.evaluable_architecture import (  # noqa: E402
    ModuleNameFilter,
    ParentModuleNameFilter,
)

ID = "C03"
RULE = (
    "same (architecture, rule) space as C01; every failing rule's message is parsed line by line "
    "with an anchored grammar and the reported import set / missing-import lines are compared in "
    "both directions with the reference model's violating sets; additionally the three query "
    "methods of the evaluable are compared with the model per (subjects, objects) choice; "
    "non-trivial = a failing rule whose violating set is non-empty and unambiguous"
)
ASSUMPTIONS = [
    "realizable architectures (leaf importers; package importers of unrelated modules in space N); pairwise unrelated subject/object identifiers plus the overlap and related-batch families",
    "where two readings of the documentation differ, must <= reported <= must+may is enforced instead of equality",
    "message grammar: '\"X\" imports \"Y\".', '\"X\" is imported by \"Y\".', '[Sub modules of ]\"S\" does|do not import|is|are not imported by [any module that is not ][a sub module of ]\"O\", ...'",
]


def plan(tier, seed):
    if tier == "quick":
        shards = plan_graph_shards("A", n_max=4, chunk=16)
        for naming in ("adversarial", "selfprefix", "hyphen"):
            shards += [dict(s, naming=naming, bound=s["bound"] + " naming=" + naming) for s in plan_graph_shards("A", n_max=4, chunk=16)]
        shards += plan_graph_shards("B", n_max=5, n_min=5, k=2, parts=4)
        shards += plan_graph_shards("B", k=2, parts=8, with_ext=True, tree_list=list(trees(4)))
        shards += plan_graph_shards("N", n_max=5, n_min=3, k=2, parts=2)
        shards += [dict(s, phantom=True, bound=s["bound"] + " + imports of non-modules") for s in plan_graph_shards("A", n_max=4, chunk=16)]
        shards += [dict(s, implicit=True, bound=s["bound"] + " ancestors implicit") for s in plan_graph_shards("A", n_max=4, chunk=16)]
    else:
        shards = plan_graph_shards("A", n_max=5, chunk=32)
        # other namings: the complete four-module space and every five-module architecture with <= 3 imports
        for naming in ("adversarial", "selfprefix", "unicode", "hyphen"):
            shards += [dict(s, naming=naming, bound=s["bound"] + " naming=" + naming)
                       for s in plan_graph_shards("A", n_max=4, chunk=16) + plan_graph_shards("B", n_max=5, n_min=5, k=3, parts=4)]
        shards += plan_graph_shards("B", n_max=6, n_min=6, k=3, parts=16)
        shards += plan_graph_shards("B", k=3, parts=16, with_ext=True, tree_list=list(trees(5)))
        shards += plan_graph_shards("B", k=2, parts=16, with_ext=True, tree_list=list(BIG_TREES))
        shards += plan_graph_shards("N", n_max=6, n_min=3, k=3, parts=8)
        shards += [dict(s, phantom=True, bound=s["bound"] + " + imports of non-modules")
                   for s in plan_graph_shards("A", n_max=4, chunk=16) + plan_graph_shards("B", n_max=5, n_min=5, k=3, parts=4)]
        shards += [dict(s, implicit=True, bound=s["bound"] + " ancestors implicit")
                   for s in plan_graph_shards("A", n_max=4, chunk=16) + plan_graph_shards("B", n_max=5, n_min=5, k=3, parts=4)]
    # layer rules use the same report format with a layer tag per module (second message generator): every
    # failing layer rule over the complete four-module space, under the two namings in which a sibling's name
    # sorts between a module and its sub modules (a-b) or extends it (ab), layers given by name and mixed with regexes
    for naming in ("adversarial", "hyphen"):
        shards += [dict(s, part="layer", naming=naming, bound="layer-rule reports " + s["bound"] + " naming=" + naming)
                   for s in plan_graph_shards("A", n_max=4, chunk=32) + ([] if tier == "quick" else plan_graph_shards("B", n_max=5, n_min=5, k=2, parts=8))]
    # rules whose subject or object is given by a pattern report exactly what the rule naming the matched modules reports
    shards += [dict(s, part="regex", bound="reports of pattern rules " + s["bound"])
               for s in plan_graph_shards("A", n_max=4, chunk=32) + ([] if tier == "quick" else plan_graph_shards("B", n_max=5, n_min=5, k=2, parts=8))]
    from .c02 import pair_cases

    for lo in range(0, len(pair_cases()) + 200, 160):
        shards.append({"part": "scan", "lo": lo, "hi": lo + 160, "bound": "reports on scanned two-statement files"})
    return {
        "shards": shards,
        "require_nonzero": ["scan-message", "lines:imports", "lines:missing", "lines:missing-any", "query:get", "query:other-from", "query:other-on", "layer-report", "pattern-report:FAIL", "nested-object-report"],
    }


_SPEC_CACHE = {}


def _specs(ns):
    key = tuple(ns)
    if key not in _SPEC_CACHE:
        big = len(ns) > 7
        _SPEC_CACHE.clear()
        _SPEC_CACHE[key] = rule_specs(ns, max_s=2 if big else 3, max_o=2 if big else 3, overlap=not big)
    return _SPEC_CACHE[key]


def judge(ns, I, spec, ev, seed, res):
    got = run_rule(mkrule(spec, seed), ev)
    if got[0] != FAIL:
        return None  # verdicts (incl. unexpected exceptions) are C01's business
    Iset = set(I)
    try:
        real, miss = parse_rule_message(got[1], spec["imp"])
    except Unparsable as e:
        return ("unparsable-line", "a line of the documented grammar", str(e))
    results = [rule_expectation(ns, Iset, spec, **r) for r in rule_readings(spec)]
    must_real = set.intersection(*[r for r, _ in results])
    may_real = set.union(*[r for r, _ in results])
    must_miss = set.intersection(*[set(m.items()) for _, m in results])
    may_miss = set.union(*[set(m.items()) for _, m in results])
    if res is not None:
        res.traces += 1
        if len(results) > 1 and (must_real != may_real or must_miss != may_miss):
            res.stats["ambiguous"] += 1
        else:
            res.nontrivial += 1
        res.stats["lines:imports"] += len(real)
        for k in miss:
            res.stats["lines:missing-any" if k[2] else "lines:missing"] += 1
    E = Iset if spec["imp"] else {(v, u) for u, v in Iset}
    not_real = sorted(real - E)
    if not_real:
        return ("reported-import-does-not-exist", "only existing imports", [list(x) for x in not_real])
    extra = sorted(real - may_real)
    if extra:
        return ("reported-import-not-in-violating-set", sorted(map(list, may_real)), [list(x) for x in extra])
    lost = sorted(must_real - real)
    if lost:
        return ("violating-import-not-reported", [list(x) for x in lost], sorted(map(list, real)))
    got_miss = set(miss.items())
    if not (must_miss <= got_miss <= may_miss):
        return ("missing-import-lines", _js(may_miss), _js(got_miss))
    return None


def _js(items):
    return sorted([[list(k), [list(x) for x in v]] for k, v in items])


def _filt(kind, names):
    return [ModuleNameFilter(name=n) if kind == "named" else ParentModuleNameFilter(parent_module=n) for n in names]


def query_checks(ns, I, so_choices, ev, res):
    """Compare the three query methods of the evaluable with the model."""
    Iset = set(I)
    out = []
    for subj, obj in so_choices:
        for sk in ("named", "sub"):
            for ok in ("named", "sub"):
                fs, fo = _filt(sk, subj), _filt(ok, obj)
                # get_dependencies
                got = ev.get_dependencies(fs, fo)
                exp = {
                    (s, o): {(u, v) for u, v in Iset if u in S(sk, s, ns) and v in S(ok, o, ns)}
                    for s in subj for o in obj
                }
                g = {(k[0].identifier, k[1].identifier): {(a.identifier, b.identifier) for a, b in v} for k, v in got.items()}
                res.transitions += 3
                res.traces += 1
                res.stats["query:get"] += 1
                if g != exp:
                    out.append(("query:get_dependencies", subj, obj, sk, ok, _jq(exp), _jq(g)))
                allO = set().union(*[S(ok, o, ns) for o in obj])
                allS = set().union(*[S(sk, s, ns) for s in subj])
                # forward others: ambiguous when sk == sub and the import targets the parent itself
                got = ev.any_dependencies_from_dependents_to_modules_other_than_dependent_upons(fs, fo)
                g = {k.identifier: {(a.identifier, b.identifier) for a, b in v} for k, v in got.items()}
                for s in subj:
                    Ss = S(sk, s, ns)
                    may = {(u, v) for u, v in Iset if u in Ss and v not in Ss and v not in allO}
                    must = {(u, v) for u, v in may if not (sk == "sub" and v == s)}
                    res.traces += 1
                    res.stats["query:other-from"] += 1
                    if not (must <= g.get(s, set()) <= may):
                        out.append(("query:any_dependencies_from_dependents", subj, obj, sk, ok, _jq({s: may}), _jq(g)))
                # backward others (dependents = importers, dependent_upons = importees)
                got = ev.any_other_dependencies_on_dependent_upons_than_from_dependents(fs, fo)
                g = {k.identifier: {(a.identifier, b.identifier) for a, b in v} for k, v in got.items()}
                for o in obj:
                    So = S(ok, o, ns)
                    may = {(u, v) for u, v in Iset if v in So and u not in So and u not in allS}
                    must = {(u, v) for u, v in may if not (ok == "sub" and u == o)}
                    res.traces += 1
                    res.stats["query:other-on"] += 1
                    if not (must <= g.get(o, set()) <= may):
                        out.append(("query:any_other_dependencies_on_dependent_upons", subj, obj, sk, ok, _jq({o: may}), _jq(g)))
    return out


def _jq(d):
    return sorted([[list(k) if isinstance(k, tuple) else k, sorted(map(list, v))] for k, v in d.items()])


_SO_CACHE = {}


def _so(ns):
    from ..spaces import subject_object_choices

    key = tuple(ns)
    if key not in _SO_CACHE:
        _SO_CACHE.clear()
        _SO_CACHE[key] = subject_object_choices(ns, 2, 2, True, (ns[0],))
    return _SO_CACHE[key]


def scan_messages(shard, res, only=None):
    """Reports on architectures that come from real source files: a file with two import statements
    (same name from two modules, several names in one statement, star imports), scanned with the
    default options and with external libraries included plus an external exclusion pattern that
    textually matches internal names; 'importer should not import anything' must list exactly the
    statements' targets, '... should only import <first target>' exactly the others."""
    import os

    from pytestarch import Rule

    from ..common import remove_scratch, scratch_dir, write_tree
    from ..scan import scan
    from .c02 import SKELETON, pair_cases

    base = scratch_dir(f"c03-scan-{shard.get('lo', 0)}")
    viol = []
    try:
        write_tree(base, SKELETON)
        root = os.path.join(base, "top")
        cases = pair_cases()
        extra = []
        for rel, imod, fid, src, must in cases:
            if fid == "same-name":
                t1, t2 = sorted(must)
                p1, _, l1 = t1.rpartition(".")
                p2, _, l2 = t2.rpartition(".")
                if p1 == p2 and p1:
                    extra.append((rel, imod, "two-names-one-statement", f"from {p1} import {l1}, {l2}", must))
        for rel, imod, fid, src, must in (cases + extra)[shard.get("lo", 0) : shard.get("hi")]:
            for oi, opts in enumerate(({}, {"exclude_external_libraries": False, "external_exclusions": ("*b*", "*top*")})):
                key = [rel, fid, src, oi]
                if only is not None and only != key:
                    continue
                path = os.path.join(base, rel)
                try:
                    with open(path, "w") as f:
                        f.write(src + "\n")
                    ev = scan(root, root, **opts)
                finally:
                    with open(path, "w") as f:
                        f.write("")
                res.states += 1
                res.transitions += 2
                res.evaluations += 1
                res.traces += 1
                res.nontrivial += 1
                res.stats["scan-message"] += 1
                targets = sorted(must)
                checks = [(Rule().modules_that().are_named(imod).should_not().import_anything(), {(imod, t) for t in targets}),
                          (Rule().modules_that().are_named(imod).should_only().import_modules_that().are_named(targets[0]),
                           {(imod, t) for t in targets[1:] if not t.startswith(targets[0] + ".")})]
                for rule, want in checks:
                    got = run_rule(rule, ev)
                    if not want:
                        continue
                    if got[0] != FAIL:
                        viol.append(("violating-import-not-reported", {"part": "scan", "key": key}, sorted(map(list, want)), list(got)))
                        break
                    try:
                        real, miss = parse_rule_message(got[1], True)
                    except Unparsable as e:
                        viol.append(("unparsable-line", {"part": "scan", "key": key}, "a line of the documented grammar", str(e)))
                        break
                    real = {(u, v) for u, v in real if not imod.startswith(v + ".")}
                    if real != want:
                        viol.append(("violating-import-not-reported" if want - real else "reported-import-not-in-violating-set",
                                     {"part": "scan", "key": key}, sorted(map(list, want)), sorted(map(list, real))))
                        break
    finally:
        remove_scratch(base)
    return viol


def regex_reports(ns, I, seed, res, only=None):
    """Differential: the report of a rule with a pattern side == the report of the rule that names the matches
    (patterns with several matches, nested ones included); the pattern rule object has been applied to another
    architecture (one module less) before."""
    import re as _re

    from . import c11
    from ..spaces import SHAPES

    ev = build(ns, I, seed)
    decoy = c11.decoy_for(ns, I, seed)
    viol = []
    pats = [p for p in c11.regex_family(ns) if len([n for n in ns if _re.match(p, n)]) >= 2][:8]
    for pat in pats:
        matches = sorted(n for n in ns if _re.match(pat, n))
        for other in [(x,) for x in ns[1:3]]:
            for side in ("subj", "obj"):
                for verb, imp, exc in SHAPES:
                    key = [pat, list(other), side, verb, imp, exc]
                    if only is not None and only != key:
                        continue
                    if side == "subj":
                        a, b = c11.mk(verb, imp, exc, "regex", pat, "named", other), c11.mk(verb, imp, exc, "named", matches, "named", other)
                    else:
                        a, b = c11.mk(verb, imp, exc, "named", other, "regex", pat), c11.mk(verb, imp, exc, "named", other, "named", matches)
                    if decoy is not None:
                        run_rule(a, decoy)
                    ga, gb = run_rule(a, ev), run_rule(b, ev)
                    if res is not None:
                        res.transitions += 2
                        res.evaluations += 1
                        res.traces += 1
                        res.stats[f"pattern-report:{gb[0]}"] += 1
                        if gb[0] == FAIL:
                            res.nontrivial += 1
                    if ga[0] != FAIL or gb[0] != FAIL:
                        continue  # verdicts are C11's business
                    try:
                        pa, pb = parse_rule_message(ga[1], imp), parse_rule_message(gb[1], imp)
                    except Unparsable as e:
                        viol.append(("unparsable-line", key, "a line of the documented grammar", str(e)))
                        continue
                    if pa != pb:
                        viol.append(("pattern-rule-report-differs-from-report-of-the-expanded-rule", key, gb[1].split("\n"), ga[1].split("\n")))
    return viol


def nested_reports(ns, I, ev, seed, res, only=None):
    """An object package nested inside the subject package ('P should not import P.q', both named): the reported
    imports are exactly the imports from P or below into P.q or below - those between two modules of P.q included
    (for 'should not' no reading of the documentation says otherwise; the complete five-module space agrees)."""
    from ..spaces import desc

    viol = []
    for P in ns[1:]:
        for B in ns[1:]:
            if not B.startswith(P + "."):
                continue
            for imp in (True, False):
                key = [P, B, imp]
                if only is not None and only != key:
                    continue
                spec = dict(verb="should_not", imp=imp, exc=False, sk="named", subj=(P,), ok="named", obj=(B,))
                got = run_rule(mkrule(spec, seed), ev)
                E = set(I) if imp else {(v, u) for u, v in I}
                exp = {(u, v) for u, v in E if u in desc(P, ns) and v in desc(B, ns)}
                if res is not None:
                    res.transitions += 1
                    res.evaluations += 1
                    res.traces += 1
                    res.stats["nested-object-report"] += 1
                if got[0] == FAIL:
                    try:
                        rep = parse_rule_message(got[1], imp)[0]
                    except Unparsable as e:
                        viol.append(("unparsable-line", key, "a line of the documented grammar", str(e)))
                        continue
                elif got[0] == ERR:
                    continue  # verdicts and unexpected exceptions are C01's business
                else:
                    rep = set()
                if rep != exp:
                    viol.append(("nested-object-report", key, sorted(map(list, exp)), sorted(map(list, rep))))
    return viol


def run_shard(shard, tier, seed):
    res = Result(shard["bound"])
    if shard.get("part") == "regex":
        for ns, I in shard_graphs(shard, seed):
            res.states += 1
            for kind, key, exp, got in regex_reports(ns, I, seed, res):
                res.violation(kind, {"part": "regex", "modules": ns, "imports": I, "key": key, "seed": seed}, exp, got)
        return res
    if shard.get("part") == "scan":
        for kind, case, exp, got in scan_messages(shard, res):
            res.violation(kind, case, exp, got)
        res.sample({"part": "scan", "file": "top/a.py", "source": "from top.b.c import helper\nfrom top.x import helper",
                    "rule": "top.a should not import anything", "expected_lines": ['"top.a" imports "top.b.c".', '"top.a" imports "top.x".']})
        return res
    if shard.get("part") == "layer":
        from . import c05

        for ns, I in shard_graphs(shard, seed):
            ns, I = renamed_graph(ns, I, shard["naming"])
            ev = build(ns, I, seed)
            res.states += 1
            for layers, specs in c05._layerings(ns):
                for style in ("names", "mixed", "mixed2"):
                    for spec in specs:
                        res.transitions += 1
                        res.evaluations += 1
                        v = c05.judge(ns, I, layers, style, spec, ev, seed, None)
                        res.traces += 1
                        res.stats["layer-report"] += 1
                        if I:
                            res.nontrivial += 1
                        if v:
                            res.violation("layer-report-" + v[0], {"part": "layer", "modules": ns, "imports": I, "layers": layers, "style": style, "rule": spec, "seed": seed}, v[1], v[2])
        return res
    for ns, I in shard_graphs(shard, seed):
        ns, I = renamed_graph(ns, I, shard.get("naming", "identity"))
        ev = build(ns, I, seed, phantom=shard.get("phantom", False), implicit=shard.get("implicit", False))
        res.states += 1
        for spec in _specs(ns):
            res.transitions += 1
            res.evaluations += 1
            v = judge(ns, I, spec, ev, seed, res)
            if v:
                res.violation(v[0], {"modules": ns, "imports": I, "rule": spec_to_json(spec), "seed": seed, "phantom": shard.get("phantom", False), "implicit": shard.get("implicit", False)}, v[1], v[2])
            elif len(res.samples) < 1 and I:
                got = run_rule(mkrule(spec, seed), ev)
                if got[0] == FAIL:
                    res.sample({"modules": ns, "imports": I, "rule": spec_to_json(spec), "message": got[1]})
        if not shard.get("phantom") and not shard.get("implicit"):
            for kind, key, exp, got in nested_reports(ns, I, ev, seed, res):
                res.violation(kind, {"part": "nested", "modules": ns, "imports": I, "key": key, "seed": seed}, exp, got)
        for q in query_checks(ns, I, _so(ns), ev, res):
            res.violation(q[0], {"modules": ns, "imports": I, "query": {"subj": list(q[1]), "obj": list(q[2]), "sk": q[3], "ok": q[4]}, "seed": seed, "phantom": shard.get("phantom", False), "implicit": shard.get("implicit", False)}, q[5], q[6])
    return res


def _check_case(case):
    if case.get("part") == "scan":
        v = scan_messages({}, Result(), only=case["key"])
        return (v[0][0], v[0][2], v[0][3]) if v else None
    if case.get("part") == "nested":
        ns, I = case["modules"], [tuple(e) for e in case["imports"]]
        v = nested_reports(ns, I, build(ns, I, case.get("seed", 0)), case.get("seed", 0), None, only=case["key"])
        return (v[0][0], v[0][2], v[0][3]) if v else None
    if case.get("part") == "regex":
        v = regex_reports(case["modules"], [tuple(e) for e in case["imports"]], case.get("seed", 0), None, only=case["key"])
        return (v[0][0], v[0][2], v[0][3]) if v else None
    if case.get("part") == "layer":
        from . import c05

        v = c05._check_case(case)
        return ("layer-report-" + v[0],) + tuple(v[1:]) if v else None
    ns, I = case["modules"], [tuple(e) for e in case["imports"]]
    ev = build(ns, I, case.get("seed", 0), phantom=case.get("phantom", False), implicit=case.get("implicit", False))
    if "rule" in case:
        return judge(ns, I, case["rule"], ev, case.get("seed", 0), None)
    q = case["query"]
    r = Result()
    out = query_checks(ns, I, [(tuple(q["subj"]), tuple(q["obj"]))], ev, r)
    out = [o for o in out if o[3] == q["sk"] and o[4] == q["ok"]]
    if out:
        return (out[0][0], out[0][5], out[0][6])
    return None


def minimise(v):
    if v["case"].get("part") == "scan":
        return dict(v, signature=f"{v['kind']}:scan:{v['case']['key'][1]}:opts{v['case']['key'][3]}")
    case = dict(v["case"])
    kind = v["kind"]
    changed = True
    while changed:
        changed = False
        for e in list(case["imports"]):
            trial = dict(case, imports=[x for x in case["imports"] if x != e])
            r = _check_case(trial)
            if r and r[0] == kind:
                case, changed = trial, True
    r = _check_case(case)
    v = dict(v, case=case, expected=r[1], observed=r[2])
    if case.get("part") == "nested":
        v["signature"] = f"{kind}:{'import' if case['key'][2] else 'imported'}:edges{len(case['imports'])}"
    elif case.get("part") == "regex":
        k = case["key"]
        v["signature"] = f"{kind}:{k[3]}/{k[5]}:{'import' if k[4] else 'imported'}:{k[2]}:edges{len(case['imports'])}"
    elif case.get("part") == "layer":
        spec = case["rule"]
        shape = "anything" if spec.get("anything") else f"{spec['verb']}/{spec['exc']}"
        v["signature"] = f"{kind}:{shape}:{case['style']}:edges{len(case['imports'])}"
    elif "rule" in case:
        spec = case["rule"]
        shape = "anything" if spec.get("anything") else f"{spec['verb']}/{spec['exc']}"
        v["signature"] = f"{kind}:{shape}:{'import' if spec['imp'] else 'imported'}:edges{len(case['imports'])}"
    else:
        q = case["query"]
        v["signature"] = f"{kind}:edges{len(case['imports'])}"
    return v


def replay(rec):
    r = _check_case(rec["case"])
    if r:
        return [{"kind": r[0], "case": rec["case"], "expected": r[1], "observed": r[2]}]
    return []
