"""C04 - modules and hierarchy mirror the scanned directory tree, named from root_path (E3)."""

from __future__ import annotations

import os
import re

from ..common import call, graph_snapshot, remove_scratch, scratch_dir, write_tree
from ..engine import Result
from ..refmodel import glob_matches
from ..impl import build, plan_graph_shards, shard_graphs
from ..scan import observed, scan
from ..scanmodel import all_dirs, ancestors, drop_ancestor_edges, model_scan, source
from ..spaces import leaves
from .c08 import tree_space

ID = "C04"
RULE = (
    "(1) every directory tree with up to N entries (files and directories named a, ab, a+b, depth "
    "<= 3; packages with and without __init__.py) plus feature trees (a sub-package whose name "
    "extends the root's name, a package name that is a substring of an outer one, deep nesting), "
    "each placed below a neutral directory and below a directory named like the root, with "
    "imports between all importable files in rotating forms (import a.b, from a import b, relative) "
    "x every directory as module_path x both entry points: modules, hierarchy edges and import "
    "edges of the real scan are compared with the scan model; the sub-directory scan is compared "
    "with the whole-root scan restricted to the sub-tree; absolute imports are additionally "
    "re-written relative to module_path's parent; the module-object entry point must build the "
    "same graph as the path entry point; (2) seam equivalence: every architecture of Space A up to "
    "the node bound is written out as a directory tree, scanned, and compared node-by-node and "
    "edge-by-edge (including the hierarchy flag) with the graph built through the internal "
    "constructor that the rule-level checks use. A case is one scan; non-trivial = module_path "
    "below root or the tree has at least two files"
)
ASSUMPTIONS = [
    "A1 names contain no '.', A2 no symlinks, A3 no directory and file with the same stem side by side, A4 relative imports never climb above root_path",
    "edges from a file to its own ancestor packages are ignored (outside C02's claim)",
    "module objects are types.ModuleType instances whose __file__ points at <dir>/__init__.py",
]

FEATURE_TREES = [
    # sub-package whose name extends the root name; imports spelled relative to module_path's parent
    {"topx": "d", "topx/__init__.py": "f", "topx/m.py": "f", "topx/n.py": "f", "topx/deep": "d", "topx/deep/o.py": "f", "t.py": "f"},
    # a package name that is a substring of an outer package name
    {"orders": "d", "orders/order": "d", "orders/order/item.py": "f", "orders/order/der": "d", "orders/order/der/x.py": "f", "orders/list.py": "f"},
    # deep chain and a package without __init__.py next to one with
    # a package named like the root directory itself, and one level deeper a package named like its parent
    # (top/top, top/top/sub/sub): parent-relative spellings begin with the name the prefix ends in
    {"top": "d", "top/__init__.py": "f", "top/m.py": "f", "top/n.py": "f", "top/sub": "d", "top/sub/k.py": "f", "top/sub/sub": "d", "top/sub/sub/j.py": "f", "z.py": "f"},
    # names that begin or end with the text of the file suffix
    {"pkg": "d", "pkg/sub": "d", "pkg/sub/pyhelp.py": "f", "pkg/sub/happy.py": "f", "pkg/subhelp.py": "f", "pkg/pyx": "d", "pkg/pyx/numpy.py": "f", "py.py": "f"},
    {"p": "d", "p/__init__.py": "f", "p/q": "d", "p/q/r": "d", "p/q/r/s": "d", "p/q/r/s/t.py": "f", "p/u.py": "f", "v": "d", "v/w.py": "f", "v/empty": "d"},
]


def plan(tier, seed):
    n_entries = 5 if tier == "quick" else 6
    trees = tree_space(n_entries)
    step = 40 if tier == "quick" else 80
    shards = [{"part": "trees", "lo": lo, "hi": lo + step, "n": n_entries, "bound": f"trees<={n_entries} entries"}
              for lo in range(0, len(trees), step)]
    shards.append({"part": "feature", "bound": "feature trees"})
    gs = plan_graph_shards("A", n_max=4 if tier == "quick" else 5, chunk=16 if tier == "quick" else 64)
    for s in gs:
        shards.append(dict(s, part="seam", bound="seam equivalence " + s["bound"]))
    return {"shards": shards, "require_nonzero": ["scan:root", "scan:sub", "entry:module", "spelling:parent-relative", "seam", "exclusion-in-other-letter-case", "excluded-directory-with-sub-directories"]}


def importable(name):
    return re.fullmatch(r"[A-Za-z_]\w*(\.[A-Za-z_]\w*)*", name) is not None


def materialise(entries):
    """-> files {rel: facts}, dirs; imports between importable files in rotating forms."""
    dirs = {"top"} | {"top/" + r for r, k in entries.items() if k == "d"}
    file_rels = sorted("top/" + r for r, k in entries.items() if k == "f")
    mods = {rel: rel[:-3].replace("/", ".") for rel in file_rels}
    files = {}
    for i, rel in enumerate(file_rels):
        me = mods[rel]
        pkg = me.rsplit(".", 1)[0]
        facts = []
        for j, other in enumerate(file_rels):
            t = mods[other]
            if t == me or not importable(t) or me.startswith(t + "."):
                continue
            parent, _, leaf = t.rpartition(".")
            form = (i + j) % 3
            if form == 0:
                facts.append(("import", t))
            elif form == 1:
                facts.append(("from", parent, (leaf,)))
            else:
                anc, level = pkg, 1
                done = False
                while True:
                    if t.startswith(anc + "."):
                        relname = t[len(anc) + 1 :]
                        rp, _, rl = relname.rpartition(".")
                        facts.append(("rel", level, rp, (rl,)))
                        done = True
                        break
                    if "." not in anc:
                        break
                    anc, level = anc.rsplit(".", 1)[0], level + 1
                if not done:
                    facts.append(("import", t))
        # imports of names that are not scanned modules (a module that does not exist on disk, a
        # function of the package): they must add neither a module nor an import; every file imports
        # the same two names, so "the second import of a phantom" occurs as soon as there are two files
        facts.append(("import", "top.zz_missing.deep"))
        # the root package itself: for a module_path below the root this is an import of something outside
        # module_path (an ancestor package), which the default configuration does not show
        facts.append(("import", "top"))
        facts.append(("rel", 1, "", ("zz_name",)))
        files[rel] = facts
    return files, dirs


def names_hierarchy(mods):
    return {(m.rsplit(".", 1)[0], m) for m in mods if "." in m and m.rsplit(".", 1)[0] in mods}


def check_scan(base_rel, base, files, dirs, mp_rel, entry, res, spelling="qualified"):
    """One real scan compared with the model. Returns (violation | None, observed)."""
    f2 = files
    if spelling == "parent-relative":
        # absolute imports of targets inside module_path re-written relative to module_path's parent
        parent = os.path.dirname(mp_rel).replace("/", ".")
        f2 = {}
        for rel, facts in files.items():
            out = []
            for f in facts:
                if f[0] in ("import", "from") and (f[1] + ".").startswith(mp_rel.replace("/", ".") + "."):
                    out.append((f[0], f[1][len(parent) + 1 :]) + tuple(f[2:]))
                else:
                    out.append(f)
            f2[rel] = out
        write_tree(base, {rel: source(fs) for rel, fs in f2.items()}, dirs)
    root = os.path.join(base, "top")
    out = call(lambda: observed(scan(root, os.path.join(base, mp_rel), entry=entry)))
    if spelling == "parent-relative":
        write_tree(base, {rel: source(fs) for rel, fs in files.items()}, dirs)
    if res is not None:
        res.states += 1
        res.transitions += 1
        res.evaluations += 1
        res.traces += 1
        res.stats["scan:root" if mp_rel == "top" else "scan:sub"] += 1
        res.stats[f"entry:{entry}"] += 1
        res.stats[f"spelling:{spelling}"] += 1
        if mp_rel != "top" or len(files) > 1:
            res.nontrivial += 1
    if out[0] != "OK":
        return ("scan-raised", "an architecture", list(out[:2])), None
    mods, edges, hier = out[1]
    m = model_scan(files, dirs, "top", mp_rel)
    if mods != m["modules"]:
        return ("modules", sorted(m["modules"]), sorted(mods)), out[1]
    if hier != names_hierarchy(mods):
        return ("hierarchy", sorted(map(list, names_hierarchy(mods))), sorted(map(list, hier))), out[1]
    outside = sorted((u, v) for (u, v) in edges if v in ancestors(mp_rel.replace("/", ".")))
    if outside:
        return ("import-of-a-package-outside-module_path-shown", [], [list(x) for x in outside]), out[1]
    e = drop_ancestor_edges(edges)
    if not (drop_ancestor_edges(m["must"]) <= e <= drop_ancestor_edges(m["may"])):
        return ("imports", {"must": sorted(map(list, drop_ancestor_edges(m["must"]))), "may": sorted(map(list, drop_ancestor_edges(m["may"])))},
                sorted(map(list, e))), out[1]
    return None, out[1]


def check_tree(entries, res, placement):
    viol = []
    files, dirs = materialise(entries)
    # the same directory path is re-used for every tree of a shard (wiped and re-written): a scan
    # must describe the tree as it is now, not what was found at that path earlier in the process
    outer = scratch_dir("c04-tree")
    base = outer if placement == "neutral" else os.path.join(outer, "top")
    try:
        os.makedirs(base, exist_ok=True)
        write_tree(base, {rel: source(fs) for rel, fs in files.items()}, dirs)
        whole = None
        for mp_rel in sorted(all_dirs(files, dirs)):
            per_entry = {}
            for entry in ("path", "module"):
                v, obs = check_scan(None, base, files, dirs, mp_rel, entry, res)
                key = {"entries": entries, "placement": placement, "module_path": mp_rel, "entry": entry, "spelling": "qualified"}
                if v:
                    viol.append((v[0], key, v[1], v[2]))
                per_entry[entry] = obs
            if per_entry.get("path") and per_entry.get("module") and per_entry["path"] != per_entry["module"]:
                viol.append(("entry-points-differ", {"entries": entries, "placement": placement, "module_path": mp_rel, "entry": "module", "spelling": "qualified"},
                             _js(per_entry["path"]), _js(per_entry["module"])))
            if mp_rel == "top":
                whole = per_entry.get("path")
                # an exclusion pattern that names an entry in another letter case excludes nothing: the
                # architecture is the one of the unfiltered scan
                names = sorted({os.path.basename(r) for r in files} | {os.path.basename(d) for d in dirs if d != "top"})
                pats = tuple("*" + n.upper() for n in names if n.upper() != n)[:3]
                if pats and whole:
                    out = call(lambda: observed(scan(os.path.join(base, "top"), os.path.join(base, "top"), exclusions=pats)))
                    if res is not None:
                        res.transitions += 1
                        res.stats["exclusion-in-other-letter-case"] += 1
                    if out[0] != "OK" or out[1] != whole:
                        viol.append(("exclusion-in-other-letter-case-changes-the-architecture",
                                     {"entries": entries, "placement": placement, "module_path": mp_rel, "entry": "path", "spelling": "qualified"},
                                     _js(whole), _js(out[1]) if out[0] == "OK" else list(out[:2])))
                # "one module per non-excluded file and per non-excluded directory": a directory that is excluded by an
                # end-anchored pattern (which matches the directory's own path only, not the paths below it)
                # removes its whole sub-tree - in particular the sub-directories below it
                nested = sorted(d for d in dirs if d != "top" and any(x != d and x.startswith(d + "/") for x in dirs))[:2]
                for d in nested:
                    pat = ("*/" + os.path.basename(d),)
                    m = model_scan(files, dirs, "top", "top", base, lambda p_, ps=pat: any(glob_matches(g, p_) for g in ps))
                    out = call(lambda: observed(scan(os.path.join(base, "top"), os.path.join(base, "top"), exclusions=pat)))
                    if res is not None:
                        res.transitions += 1
                        res.traces += 1
                        res.stats["excluded-directory-with-sub-directories"] += 1
                    if out[0] != "OK" or out[1][0] != m["modules"]:
                        viol.append(("modules-below-an-excluded-directory",
                                     {"entries": entries, "placement": placement, "module_path": mp_rel, "entry": "path", "spelling": "qualified", "exclusions": list(pat)},
                                     sorted(m["modules"]), sorted(out[1][0]) if out[0] == "OK" else list(out[:2])))
            elif whole and per_entry.get("path"):
                sub = per_entry["path"]
                restricted = {(u, v) for (u, v) in drop_ancestor_edges(whole[1]) if u in sub[0] and v in sub[0]}
                below = {m for m in whole[0] if m == mp_rel.replace("/", ".") or m.startswith(mp_rel.replace("/", ".") + ".")}
                below |= set(ancestors(mp_rel.replace("/", ".")))
                if sub[0] != below or drop_ancestor_edges(sub[1]) != restricted:
                    viol.append(("sub-scan-differs-from-restricted-root-scan",
                                 {"entries": entries, "placement": placement, "module_path": mp_rel, "entry": "path", "spelling": "qualified"},
                                 {"modules": sorted(below), "imports": sorted(map(list, restricted))},
                                 {"modules": sorted(sub[0]), "imports": sorted(map(list, drop_ancestor_edges(sub[1])))}))
                v, _ = check_scan(None, base, files, dirs, mp_rel, "path", res, spelling="parent-relative")
                if v:
                    viol.append((v[0], {"entries": entries, "placement": placement, "module_path": mp_rel, "entry": "path", "spelling": "parent-relative"}, v[1], v[2]))
    finally:
        remove_scratch(outer)
    return viol


def _js(obs):
    return {"modules": sorted(obs[0]), "imports": sorted(map(list, obs[1])), "hierarchy": sorted(map(list, obs[2]))}


# ------------------------------------------------------------------------- seam equivalence


def seam_check(ns, I, seed, res):
    """Space A graph -> directory tree -> real scan == graph built through the internal seam."""
    lv = set(leaves(ns))
    files, dirs = {}, set()
    for n in ns:
        rel = n.replace(".", "/")
        if n in lv and n != ns[0]:
            files[rel + ".py"] = [("import", v) for (u, v) in I if u == n]
        else:
            dirs.add(rel)
    base = scratch_dir("c04-seam")  # same path re-used for every architecture of the shard
    try:
        write_tree(base, {rel: source(fs) for rel, fs in files.items()}, dirs)
        root = os.path.join(base, ns[0])
        ev = scan(root, root)
        got = graph_snapshot(ev)
    finally:
        remove_scratch(base)
    exp = graph_snapshot(build(ns, I, seed))
    if res is not None:
        res.states += 1
        res.transitions += 2
        res.traces += 1
        res.stats["seam"] += 1
        if I:
            res.nontrivial += 1
    if got != exp:
        return ("scanned-graph-differs-from-internal-constructor", {"modules": list(exp[0]), "edges": [list(e) for e in exp[1]]},
                {"modules": list(got[0]), "edges": [list(e) for e in got[1]]})
    return None


def run_shard(shard, tier, seed):
    res = Result(shard["bound"])
    if shard["part"] == "seam":
        for ns, I in shard_graphs(shard, seed):
            v = seam_check(ns, I, seed, res)
            if v:
                res.violation(v[0], {"part": "seam", "modules": ns, "imports": I, "seed": seed}, v[1], v[2])
        return res
    trees = tree_space(shard["n"])[shard["lo"] : shard["hi"]] if shard["part"] == "trees" else FEATURE_TREES
    for i, entries in enumerate(trees):
        for placement in ("neutral", "below-same-name"):
            if placement == "below-same-name" and shard["part"] == "trees" and i % 4:
                continue
            for kind, key, exp, got in check_tree(entries, res, placement):
                res.violation(kind, dict(key, part="tree"), exp, got)
        if i == 0:
            files, dirs = materialise(entries)
            res.sample({"entries": entries, "files": {k: source(v) for k, v in files.items()}})
    return res


def _check_case(case):
    if case["part"] == "seam":
        return seam_check(case["modules"], [tuple(e) for e in case["imports"]], case.get("seed", 0), None)
    for kind, key, exp, got in check_tree(case["entries"], None, case["placement"]):
        if key["module_path"] == case["module_path"] and key["entry"] == case["entry"] and key["spelling"] == case["spelling"]:
            return (kind, exp, got)
    return None


def minimise(v):
    v = dict(v)
    c = v["case"]
    if c["part"] == "seam":
        v["signature"] = f"{v['kind']}:n{len(c['modules'])}:edges{len(c['imports'])}"
    else:
        v["signature"] = f"{v['kind']}:{c['placement']}:{'root' if c['module_path'] == 'top' else 'sub'}:{c['entry']}:{c['spelling']}"
    return v


def replay(rec):
    r = _check_case(rec["case"])
    if r:
        return [{"kind": r[0], "case": rec["case"], "expected": r[1], "observed": r[2]}]
    return []
