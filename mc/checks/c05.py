"""C05 - layer-rule verdicts follow the documented semantics (E1)."""

from __future__ import annotations

import itertools
import re

from ..common import ERR, FAIL, PASS, run_rule
from ..e2 import generic_canon
from ..engine import Result
from ..impl import build, mk_layer_rule, mk_layered_architecture, plan_graph_shards, shard_graphs
from ..refmodel import Unparsable, layer_expectation, layer_of, parse_layer_message
from ..spaces import NAMINGS, SHAPES, rename, trees, unrelated

from pytestarch import LayerRule  # noqa: E402

ID = "C05"
RULE = (
    "every architecture of the stated bounds (identity and adversarial naming) x every layered "
    "architecture over an antichain of 2-4 modules partitioned into 2-4 layers with 0-1 modules in "
    "no layer, layers defined by name lists, by exactly-matching regexes or mixed x every subject "
    "layer x 12 rule shapes + 2 aliases x 1-2 object layers; verdict (and, as an extra monitor, the "
    "parsed message with its layer tags) compared with the layer model; a case is one "
    "(architecture, layering, rule) triple; non-trivial = the architecture has an import edge"
)
ASSUMPTIONS = [
    "realizable architectures (leaf importers); layer modules pairwise unrelated (the property's domain)",
    "a layer regex matches exactly the modules of its layer (anchored alternation of escaped names)",
    "layer model: layer = union of listed modules and descendants; access = some import into the object layer; other = target outside subject layer and outside named object layers; same-layer imports never count",
]

LAYER_NAMES = ["L1", "L2", "L3", "L4"]


def plan(tier, seed):
    if tier == "quick":
        shards = plan_graph_shards("A", n_max=4, chunk=8)
        shards += plan_graph_shards("B", n_max=5, n_min=5, k=2, parts=6)
    else:
        shards = plan_graph_shards("A", n_max=5, chunk=16)
        shards += plan_graph_shards("B", n_max=6, n_min=6, k=2, parts=16)
    if tier == "quick":
        # one six-module tree with listed modules on different nesting levels: a deep module (r.a.a, with a sub
        # module) whose name sorts before two shallow ones (r.b, r.c); <= 1 import
        deep = [dict(s, edges_light=True) for s in plan_graph_shards("B", k=1, parts=4, tree_list=[((((),),), (), ())])]
        shards += deep
    out = []
    for s in shards:
        for naming in ("identity", "adversarial", "hyphen"):
            if s.get("edges_light") and naming != "identity":
                continue
            if tier == "quick" and s.get("edges") == 2 and naming != "identity":
                continue  # quick: two-edge architectures on five modules under one naming only
            if naming == "hyphen" and s["space"] != "A":
                continue  # a sibling a-b sorts between a and a.x: the complete space only
            out.append(dict(s, naming=naming, bound=s["bound"] + f" naming={naming}"))
    req = [f"{v}/{e}/{o}" for v in ("should", "should_only", "should_not") for e in (False, True) for o in (PASS, FAIL)]
    return {"shards": out, "require_nonzero": req + ["anything/PASS", "anything/FAIL", "style:names", "style:regex", "style:mixed", "re-applied"]}


def set_partitions(xs):
    xs = list(xs)
    if not xs:
        yield []
        return
    first, rest = xs[0], xs[1:]
    for p in set_partitions(rest):
        yield [[first]] + p
        for i in range(len(p)):
            yield p[:i] + [[first] + p[i]] + p[i + 1 :]


def layerings(ns):
    """All (layers dict name -> modules) over antichains of 2-4 non-root modules."""
    cand = ns[1:]
    out = []
    for k in range(2, 5):
        for xs in itertools.combinations(cand, k):
            if not unrelated(xs):
                continue
            # optionally leave one module in no layer
            for left_out in [None] + list(xs):
                ys = [x for x in xs if x != left_out]
                for part in set_partitions(ys):
                    if not 2 <= len(part) <= 4:
                        continue
                    part = sorted(sorted(b) for b in part)
                    out.append({LAYER_NAMES[i]: b for i, b in enumerate(part)})
    # dedupe
    seen, res = set(), []
    for l in out:
        key = tuple(sorted((k, tuple(v)) for k, v in l.items()))
        if key not in seen:
            seen.add(key)
            res.append(l)
    return res


def layer_defs(layers, style):
    defs = []
    for i, (name, ms) in enumerate(layers.items()):
        use_regex = style == "regex" or (style == "mixed" and i % 2 == 0) or (style == "mixed2" and i % 2 == 1)
        if use_regex:
            defs.append((name, ("regex", "^(" + "|".join(re.escape(m) for m in ms) + ")$")))
        else:
            defs.append((name, ("names", list(ms))))
    return defs


def layer_rule_specs(layers):
    names = list(layers)
    out = []
    for sl in names:
        others = [n for n in names if n != sl]
        objsets = [c for k in (1, 2) for c in itertools.permutations(others, k)]  # both listing orders
        for obj in objsets:
            for verb, imp, exc in SHAPES:
                out.append(dict(verb=verb, imp=imp, exc=exc, subj=sl, obj=list(obj)))
        for imp in (True, False):
            out.append(dict(verb="should_not", imp=imp, exc=False, subj=sl, obj=None, anything=True))
    return out


def decoys(ns, I, layers, spec):
    """Architectures that lack one module (with its sub-tree) of a layer the rule mentions: the
    rule object is applied to one of them first, so a layer regex matches a different set there."""
    mentioned = [spec["subj"]] + list(spec.get("obj") or [])
    out = []
    for l in mentioned:
        for m in layers[l]:
            keep = [n for n in ns if n != m and not n.startswith(m + ".")]
            out.append((keep, [(u, v) for u, v in I if u in keep and v in keep]))
    return out


def judge(ns, I, layers, style, spec, ev, seed, res, la=None, decoy=None, base=None):
    """la: LayeredArchitecture object shared with other rules (None = a fresh one);
    decoy: (ns, I) of another architecture the same rule object is applied to first."""
    if la is None:
        la = mk_layered_architecture(layer_defs(layers, style), seed)
    rule = mk_layer_rule(la, spec, seed, base=base)
    if decoy is not None:
        run_rule(rule, build(decoy[0], decoy[1], seed))
        if res is not None:
            res.transitions += 1
            res.stats["re-applied"] += 1
    got = run_rule(rule, ev)
    real, miss = layer_expectation(ns, set(I), layers, spec)
    exp = PASS if not real and not miss else FAIL
    shape = "anything" if spec.get("anything") else f"{spec['verb']}/{spec['exc']}"
    if res is not None:
        res.traces += 1
        res.stats[f"{shape}/{exp}"] += 1
        res.stats[f"style:{'mixed' if style.startswith('mixed') else style}"] += 1
        if I:
            res.nontrivial += 1
    if got[0] == ERR:
        return ("unexpected-exception", "PASS or FAIL", got[1])
    if got[0] != exp:
        return ("verdict", exp, got[0] + (": " + got[1] if got[1] else ""))
    if got[0] == FAIL:
        try:
            greal, gmiss = parse_layer_message(got[1], spec["imp"])
        except Unparsable as e:
            return ("unparsable-line", "a line of the documented grammar", str(e))

        def tag(m):
            l = layer_of(m, layers, ns)
            return "(no layer)" if l is None else f'(layer "{l}")'

        exp_real = {(u, tag(u), v, tag(v)) for u, v in real}
        if greal != exp_real or gmiss != miss:
            return ("message", {"imports": sorted(map(list, exp_real)), "missing": sorted(map(list, miss))},
                    {"imports": sorted(map(list, greal)), "missing": sorted(map(list, gmiss))})
    return None


STYLES = ("names", "regex", "mixed", "mixed2")


def _renamed(ns, I, naming):
    m = NAMINGS[naming]
    if not m:
        return list(ns), list(I)
    return [rename(n, m) for n in ns], [(rename(a, m), rename(b, m)) for a, b in I]


_CACHE = {}


def _layerings(ns):
    key = tuple(ns)
    if key not in _CACHE:
        _CACHE.clear()
        ls = layerings(ns)
        _CACHE[key] = [(l, layer_rule_specs(l)) for l in ls]
    return _CACHE[key]


def run_shard(shard, tier, seed):
    res = Result(shard["bound"])
    for ns, I in shard_graphs(shard, seed):
        ns, I = _renamed(ns, I, shard["naming"])
        ev = build(ns, I, seed)
        res.states += 1
        light = tier == "quick" and (shard.get("edges") == 2 or shard.get("edges_light"))  # quick, deepest bounds: two definition styles, no decoys
        for layers, specs in _layerings(ns):
            for style in (("names", "regex") if light else STYLES):
                # one LayeredArchitecture object per definition, shared by all rules (as in a test module)
                la = mk_layered_architecture(layer_defs(layers, style), seed)
                la0, dirty = generic_canon(la), False
                # for the name-defined style all rules are additionally started from one shared
                # LayerRule().based_on(architecture) object, configured and evaluated one after the other
                shared_base = LayerRule().based_on(la) if style == "names" else None
                for spec in specs:
                    res.transitions += 1
                    res.evaluations += 1
                    if dirty:
                        # the previous rule changed the shared definition: it was used once more in that
                        # state (one follow-up rule), now start again from a fresh definition
                        la, dirty = mk_layered_architecture(layer_defs(layers, style), seed), False
                        if shared_base is not None:
                            shared_base = LayerRule().based_on(la)  # the shared rule base follows the fresh definition
                    v = judge(ns, I, layers, style, spec, ev, seed, res, la=la)
                    if v is None and shared_base is not None:
                        v = judge(ns, I, layers, style, spec, ev, seed, res, la=la, base=shared_base)
                        res.stats["shared-layer-rule-base"] += 1
                        if v:
                            v = (v[0] + "-with-shared-rule-base",) + tuple(v[1:])
                    if generic_canon(la) != la0:
                        dirty = True
                        res.stats["shared-definition-changed-by-a-rule"] += 1
                    if v:
                        res.violation(v[0], {"modules": ns, "imports": I, "layers": layers, "style": style, "rule": spec, "seed": seed}, v[1], v[2])
                    if not light and (style == "regex" or (style == "mixed" and shard["space"] == "A")):
                        for d in decoys(ns, I, layers, spec):
                            res.transitions += 1
                            res.evaluations += 1
                            v = judge(ns, I, layers, style, spec, ev, seed, res, la=la, decoy=d)
                            if v:
                                res.violation(v[0] + "-after-re-application", {"modules": ns, "imports": I, "layers": layers, "style": style, "rule": spec, "seed": seed,
                                                                              "decoy": {"modules": d[0], "imports": d[1]}}, v[1], v[2])
            if len(res.samples) < 1 and I:
                res.sample({"modules": ns, "imports": I, "layers": layers, "style": "regex", "rule": specs[0]})
    return res


def _check_case(case):
    ns, I = case["modules"], [tuple(e) for e in case["imports"]]
    ev = build(ns, I, case.get("seed", 0))
    d = case.get("decoy")
    v = judge(ns, I, case["layers"], case["style"], case["rule"], ev, case.get("seed", 0), None,
              decoy=(d["modules"], [tuple(e) for e in d["imports"]]) if d else None)
    if v and d:
        v = (v[0] + "-after-re-application",) + tuple(v[1:])
    return v


def minimise(v):
    case = dict(v["case"])
    kind = v["kind"]
    changed = True
    while changed:
        changed = False
        for e in list(case["imports"]):
            trial = dict(case, imports=[x for x in case["imports"] if x != e])
            r = _check_case(trial)
            if r and r[0] == kind:
                case, changed = trial, True
    r = _check_case(case)
    spec = case["rule"]
    shape = "anything" if spec.get("anything") else f"{spec['verb']}/{spec['exc']}"
    obs = r[2].split(":")[0] if isinstance(r[2], str) else "msg"
    v = dict(v, case=case, expected=r[1], observed=r[2])
    v["signature"] = f"{kind}:{shape}:{'regex-layers' if case['style'] != 'names' else 'named-layers'}:edges{len(case['imports'])}:{obs}"
    return v


def replay(rec):
    r = _check_case(rec["case"])
    if r:
        return [{"kind": r[0], "case": rec["case"], "expected": r[1], "observed": r[2]}]
    return []
