"""C06 - PlantUML diagrams parse to exactly their components, aliases and arrows
(E1, deviation-bounded exhaustive generation of diagrams in the documented subset)."""

from __future__ import annotations

import itertools
import os

from ..common import remove_scratch, scratch_dir
from ..engine import Result

from pytestarch.diagram_extension.diagram_parser import PumlParser  # noqa: E402
from pytestarch.diagram_extension.exceptions import PumlParsingError  # noqa: E402

ID = "C06"
RULE = (
    "components k<=3 (thorough: 4) named from {identifier, identifier_with_digit, dotted name, "
    "deeper dotted name} x every dependency relation over them x choice points (declaration form "
    "per component: [n] | none | component n | component [n] | [n] as al | component [n] as al; "
    "arrow form per dependency: --> -> <-- <- -up-> <-down-; reference per arrow end: [n] | bare | "
    "alias; line order: declarations first | arrows first | reversed | every rotation; noise text "
    "outside the tags: none | before | after | both): all diagrams with at most D deviations from "
    "the default choice are generated, written to a file and parsed with the real PumlParser; "
    "missing start/end tags must raise PumlParsingError; in addition every ordered pair of a pool of "
    "small two-component diagrams (aliases and component names drawn from one identifier pool) is "
    "parsed back to back and the second result compared with its ground truth; the small diagrams plus "
    "a family of three-component diagrams (one or two arrows, third component isolated or attached, with and without alias) are "
    "also evaluated as DiagramRule in both modes against four import relations and compared with the conformance verdict. A case is one diagram text; non-trivial = "
    "at least one arrow and at least one deviation"
)
ASSUMPTIONS = [
    "only the documented subset is generated: no indentation, no 'component n as alias' without brackets, no names with spaces, one @startuml block",
    "an alias reference is only generated for components declared with an alias",
    "expected result: set of declared-or-referenced names with aliases resolved; relation dependor -> set of dependees",
]

NAMES = ["A", "m_2", "src.B", "pkg.sub.C"]
ALIAS = {"A": "al_a", "m_2": "al_m", "src.B": "al_b", "pkg.sub.C": "al_c"}
DECL = ["[{n}]", "none", "component {n}", "component [{n}]", "[{n}] as {al}", "component [{n}] as {al}"]
ARROWS = [("-->", True), ("->", True), ("<--", False), ("<-", False), ("-up->", True), ("<-down-", False)]
REFS = ["br", "bare", "alias"]
NOISE = [("", ""), ("some text [X] --> [Y]\n", ""), ("", "\nafter [P] <- [Q]"), ("intro\n[Z]\n", "\noutro\ncomponent W")]
N_ORDER = 6


def plan(tier, seed):
    maxdev = 3 if tier == "quick" else 4
    shards = []
    for k in (1, 2, 3):
        comps = NAMES[:k]
        pairs = list(itertools.permutations(comps, 2))
        for dbits in range(2 ** len(pairs)):
            shards.append({"k": k, "dbits": dbits, "maxdev": maxdev, "bound": f"components<={3} deviations<={maxdev}"})
    if tier == "thorough":
        comps = NAMES[:4]
        pairs = list(itertools.permutations(comps, 2))
        for r in range(0, 4):
            for sub in itertools.combinations(range(len(pairs)), r):
                shards.append({"k": 4, "dbits": sum(1 << i for i in sub), "maxdev": 2, "bound": "components=4 arrows<=3 deviations<=2"})
    shards.append({"k": 0, "tags": True, "bound": "missing tags"})
    n = len(small_diagrams())
    for lo in range(0, n, 12):
        shards.append({"k": 0, "pairs": True, "lo": lo, "hi": lo + 12, "bound": f"ordered pairs of {n} small diagrams"})
    n = len(rule_level_pool())
    for lo in range(0, n, 24):
        shards.append({"k": 0, "rule_level": True, "lo": lo, "hi": lo + 24, "bound": f"DiagramRule verdicts for {n} small diagrams (two and three components)"})
    return {"shards": shards, "require_nonzero": ["parsed", "alias-ref", "dotted", "tags:PumlParsingError", "pair", "diagram-rule:PASS", "diagram-rule:FAIL"]}


def ref(n, kind):
    if kind == "br":
        return f"[{n}]"
    if kind == "bare":
        return n
    return ALIAS[n]


def build_text(comps, D, ch, n_cps):
    """ch: choice index per choice point (dict, default 0). Returns (text, expected) or None if
    the combination is outside the documented subset (alias reference without alias)."""
    get = lambda i: ch.get(i, 0)  # noqa: E731
    decl = {c: DECL[get(i)] for i, c in enumerate(comps)}
    has_alias = {c: " as " in decl[c] for c in comps}
    lines_d = [decl[c].format(n=c, al=ALIAS[c]) for c in comps if decl[c] != "none"]
    lines_a = []
    base = len(comps)
    uses_alias = False
    for j, (src, dst) in enumerate(D):
        form, ltr = ARROWS[get(base + 3 * j)]
        rl, rr = REFS[get(base + 3 * j + 1)], REFS[get(base + 3 * j + 2)]
        left, right = (src, dst) if ltr else (dst, src)
        for n, rk in ((left, rl), (right, rr)):
            if rk == "alias":
                if not has_alias[n]:
                    return None
                uses_alias = True
        lines_a.append(f"{ref(left, rl)} {form} {ref(right, rr)}")
    order = get(n_cps - 2)
    noise = NOISE[get(n_cps - 1)]
    body = lines_d + lines_a
    if order == 1:
        body = lines_a + lines_d
    elif order == 2:
        body = list(reversed(body))
    elif order >= 3 and body:
        rot = (order - 2) % len(body)
        body = body[rot:] + body[:rot]
    txt = noise[0] + "@startuml\n" + "\n".join(body) + "\n@enduml" + noise[1]
    exp_mods = {c for c in comps if decl[c] != "none"} | {x for a in D for x in a}
    exp_deps = {}
    for s, d in D:
        exp_deps.setdefault(s, set()).add(d)
    return txt, (exp_mods, exp_deps), uses_alias


def parse(path, txt):
    with open(path, "w") as f:
        f.write(txt)
    try:
        r = PumlParser().parse(path)
        return (set(r.all_modules), {k: set(v) for k, v in r.dependencies.items()})
    except Exception as e:  # noqa: BLE001
        return ("ERR", type(e).__name__, str(e))


def js(x):
    if isinstance(x, tuple) and len(x) == 2 and isinstance(x[0], set):
        return {"modules": sorted(x[0]), "dependencies": {k: sorted(v) for k, v in sorted(x[1].items())}}
    return list(x)


# ---------------------------------------------------------------- sequences of diagrams

POOL_NAMES = ["A", "m_2", "al_a", "x1"]


def small_diagrams():
    """Two-component diagrams whose aliases are drawn from the same identifier pool as the
    component names (never colliding inside one diagram): what is an alias in one diagram is a
    component in another.  -> list of (text, expected)."""
    out = []
    for a, b in itertools.permutations(POOL_NAMES, 2):
        free = [n for n in POOL_NAMES if n not in (a, b)]
        for da, db in itertools.product((False, True), repeat=2):  # declared with alias?
            al = {}
            if da:
                al[a] = free[0]
            if db:
                al[b] = free[1]
            decl = [f"[{c}] as {al[c]}" if c in al else f"[{c}]" for c in (a, b)]
            for D in ([], [(a, b)], [(b, a)]):
                ref_opts = [["br"] + (["alias"] if x in al else []) for x in (D[0] if D else ())]
                for refs in (itertools.product(*ref_opts) if D else [()]):
                    lines = list(decl)
                    if D:
                        s_, d_ = D[0]
                        l = al[s_] if refs[0] == "alias" else f"[{s_}]"
                        r = al[d_] if refs[1] == "alias" else f"[{d_}]"
                        lines.append(f"{l} --> {r}")
                    txt = "@startuml\n" + "\n".join(lines) + "\n@enduml\n"
                    exp = ({a, b}, {D[0][0]: {D[0][1]}} if D else {})
                    out.append((txt, exp))
    return out


def three_component_diagrams():
    """Diagrams over three pool names: one or two arrows plus a component that only some arrows (or
    none) touch, declared with and without alias.  Used by the rule-level part only: with three
    components a component can have a drawn arrow AND an absent one.  -> list of (text, expected)."""
    out = []
    for a, b, c in itertools.permutations(POOL_NAMES[:3], 3):
        for D in ([(a, b)], [(a, b), (c, a)], [(a, b), (a, c)]):
            for with_alias in (False, True):
                al = {c: POOL_NAMES[3]} if with_alias else {}
                lines = [f"[{x}] as {al[x]}" if x in al else f"[{x}]" for x in (a, b, c)]
                for s_, d_ in D:
                    lines.append(f"{al.get(s_) or '[' + s_ + ']'} --> {al.get(d_) or '[' + d_ + ']'}")
                deps = {}
                for s_, d_ in D:
                    deps.setdefault(s_, set()).add(d_)
                out.append(("@startuml\n" + "\n".join(lines) + "\n@enduml\n", ({a, b, c}, deps)))
    return out


def rule_level_pool():
    return small_diagrams() + three_component_diagrams()


def run_pairs(shard, res, path):
    """Every ordered pair of small diagrams parsed one after the other in one process: the second
    result must be what the second text says, whatever was parsed before."""
    pool = small_diagrams()
    for i in range(shard["lo"], min(shard["hi"], len(pool))):
        t1, _ = pool[i]
        for t2, exp2 in pool:
            parse(path, t1)
            got = parse(path, t2)
            res.states += 1
            res.transitions += 2
            res.evaluations += 1
            res.traces += 1
            res.nontrivial += 1
            res.stats["pair"] += 1
            if got != exp2:
                res.violation("parse-result-depends-on-diagram-parsed-before", {"first": t1, "text": t2}, js(exp2), js(got))
    res.sample({"first": pool[shard["lo"]][0], "then": pool[-1][0], "expected_for_second": js(pool[-1][1])})


def run_rule_level(shard, res, work):
    """The parse result seen through DiagramRule: for every small diagram, both modes and a few
    architectures over the pool names, the verdict must be the conformance verdict computed from the
    generator's ground truth; one DiagramRule object per mode is re-used for all files (from_file)."""
    import pathlib

    from pytestarch import DiagramRule

    from ..common import arch, run_rule
    from .c07 import conformance

    ns = ["top"] + ["top." + n for n in POOL_NAMES]
    a, b, c = ns[1], ns[2], ns[3]
    relations = [[], [(a, b)], [(b, a), (a, c)], [(c, a), (c, b), (b, c)]]
    evs = [(I, arch(ns, I)) for I in relations]
    pool = rule_level_pool()
    shared = {so: DiagramRule(should_only_rule=so) for so in (True, False)}
    for i in range(shard["lo"], min(shard["hi"], len(pool))):
        txt, (mods, deps) = pool[i]
        path = os.path.join(work, f"d{i}.puml")
        with open(path, "w") as f:
            f.write(txt)
        comps = sorted("top." + m for m in mods)
        arrows = [("top." + s_, "top." + d_) for s_, ds in deps.items() for d_ in ds]
        for so in (True, False):
            for I, ev in evs:
                exp = "PASS" if conformance(ns, I, comps, arrows, so) else "FAIL"
                fresh = run_rule(DiagramRule(should_only_rule=so).from_file(pathlib.Path(path)).with_base_module("top"), ev)
                again = run_rule(shared[so].from_file(pathlib.Path(path)).with_base_module("top"), ev)
                res.states += 1
                res.transitions += 2
                res.evaluations += 1
                res.traces += 1
                res.nontrivial += 1
                res.stats[f"diagram-rule:{exp}"] += 1
                for label, got in (("fresh rule object", fresh), ("rule object re-used for the next file", again)):
                    if got[0] != exp:
                        res.violation("diagram-rule-verdict-differs-from-drawn-diagram",
                                      {"text": txt, "should_only": so, "imports": [list(e) for e in I], "object": label, "first": None},
                                      exp, list(got))
                        break
    res.sample({"text": pool[shard["lo"]][0], "modules": ns, "imports": relations[1], "expected": "conformance verdict of the drawn arrows"})


def run_shard(shard, tier, seed):
    res = Result(shard["bound"])
    work = scratch_dir(f"c06-{shard.get('k')}-{shard.get('dbits', 0)}-{shard.get('lo', 0)}")
    path = os.path.join(work, "d.puml")
    try:
        if shard.get("pairs"):
            run_pairs(shard, res, path)
            return res
        if shard.get("rule_level"):
            run_rule_level(shard, res, work)
            return res
        if shard.get("tags"):
            body = "[A] --> [B]\ncomponent C"
            for name, txt in (("no-tags", body), ("no-end", "@startuml\n" + body), ("no-start", body + "\n@enduml"),
                              ("empty", ""), ("end-before-start", "@enduml\n" + body + "\n@startuml")):
                got = parse(path, txt)
                res.states += 1
                res.transitions += 1
                res.traces += 1
                res.nontrivial += 1
                res.stats["tags:" + (got[1] if got[0] == "ERR" else "parsed")] += 1
                if not (got[0] == "ERR" and got[1] == "PumlParsingError"):
                    res.violation("missing-tags-not-rejected", {"text": txt, "variant": name}, "PumlParsingError", js(got))
            return res
        comps = NAMES[: shard["k"]]
        pairs = list(itertools.permutations(comps, 2))
        D = [pairs[i] for i in range(len(pairs)) if shard["dbits"] >> i & 1]
        cps = [("decl", c) for c in comps] + [x for a in D for x in (("arrow", a), ("refL", a), ("refR", a))] + [("order",), ("noise",)]
        sizes = [len(DECL) if c[0] == "decl" else len(ARROWS) if c[0] == "arrow" else 3 if c[0] in ("refL", "refR") else N_ORDER if c[0] == "order" else len(NOISE) for c in cps]
        seen = set()
        for ndev in range(0, shard["maxdev"] + 1):
            for idxs in itertools.combinations(range(len(cps)), ndev):
                for vals in itertools.product(*[range(1, sizes[i]) for i in idxs]):
                    ch = dict(zip(idxs, vals))
                    built = build_text(comps, D, ch, len(cps))
                    if built is None:
                        res.stats["skipped:alias-without-declaration"] += 1
                        continue
                    txt, exp, uses_alias = built
                    if txt in seen:
                        continue
                    seen.add(txt)
                    got = parse(path, txt)
                    res.states += 1
                    res.transitions += 1
                    res.evaluations += 1
                    res.traces += 1
                    res.stats["parsed"] += 1
                    if uses_alias:
                        res.stats["alias-ref"] += 1
                    if any("." in c for c in exp[0]):
                        res.stats["dotted"] += 1
                    if D and ndev:
                        res.nontrivial += 1
                    if got != exp:
                        res.violation("parse-result", {"text": txt, "deviations": ndev}, js(exp), js(got))
                    elif D and ndev == 2 and len(res.samples) < 1:
                        res.sample({"text": txt, "parsed": js(got)})
    finally:
        remove_scratch(work)
    return res


def _check_rule_level(case):
    import pathlib

    from pytestarch import DiagramRule

    from ..common import arch, run_rule

    work = scratch_dir("c06-replay-rule")
    try:
        path = os.path.join(work, "d.puml")
        with open(path, "w") as f:
            f.write(case["text"])
        ns = ["top"] + ["top." + n for n in POOL_NAMES]
        ev = arch(ns, [tuple(e) for e in case["imports"]])
        return run_rule(DiagramRule(should_only_rule=case["should_only"]).from_file(pathlib.Path(path)).with_base_module("top"), ev)
    finally:
        remove_scratch(work)


def _check_case(case):
    work = scratch_dir("c06-replay")
    try:
        if case.get("first"):
            parse(os.path.join(work, "d.puml"), case["first"])
        got = parse(os.path.join(work, "d.puml"), case["text"])
    finally:
        remove_scratch(work)
    return got


def minimise(v):
    v = dict(v)
    txt = v["case"]["text"]
    feats = []
    if "." in txt.split("@startuml")[-1]:
        feats.append("dotted")
    if " as " in txt:
        feats.append("alias")
    if v["kind"] == "diagram-rule-verdict-differs-from-drawn-diagram":
        v["signature"] = f"{v['kind']}:only{v['case']['should_only']}:{v['case']['object'].split()[0]}"
    elif v["kind"] == "parse-result-depends-on-diagram-parsed-before":
        v["signature"] = f"{v['kind']}:{'+'.join(feats) or 'plain'}"
    elif v["kind"] == "parse-result":
        v["signature"] = f"parse-result:{'+'.join(feats) or 'plain'}:dev{v['case']['deviations']}"
    else:
        v["signature"] = f"{v['kind']}:{v['case']['variant']}"
    return v


def replay(rec):
    if rec["kind"] == "diagram-rule-verdict-differs-from-drawn-diagram":
        got = _check_rule_level(rec["case"])
        if got[0] != rec["expected"]:
            return [{"kind": rec["kind"], "case": rec["case"], "expected": rec["expected"], "observed": list(got)}]
        return []
    got = _check_case(rec["case"])
    exp = rec["expected"]
    if exp == "PumlParsingError":
        ok = got[0] == "ERR" and got[1] == "PumlParsingError"
    else:
        ok = js(got) == exp
    if not ok:
        return [{"kind": rec["kind"], "case": rec["case"], "expected": exp, "observed": js(got)}]
    return []
