"""C07 - DiagramRule passes exactly when the imports conform to the diagram (E1)."""

from __future__ import annotations

import hashlib
import itertools
import os

from ..common import FAIL, PASS, remove_scratch, run_rule, scratch_dir
from ..engine import Result
from ..impl import build, plan_graph_shards, shard_graphs
from ..spaces import admissible_pairs, desc, renamed_graph, trees, unrelated

from pytestarch import DiagramRule, Rule  # noqa: E402

ID = "C07"
RULE = (
    "every architecture of the stated bounds x every set of 2-4 pairwise unrelated modules as "
    "diagram components (sibling sets under every parent, plus general antichains with fully "
    "qualified names; components with sub modules and bystander modules occur) x every arrow "
    "relation over them (2-3 components: complete; 4: up to 3 arrows) x should_only_rule in "
    "{True, False} x naming in {short names + with_base_module, dotted names + "
    "base_module_included_in_module_names}; the diagram is written to a file and "
    "DiagramRule.assert_applies is compared with the conformance formula; the failure message "
    "must consist of exactly the lines of the individually failing generated rules; both naming "
    "options must agree. A case is one (architecture, components, arrows, mode, naming) tuple; "
    "non-trivial = the architecture has an import edge"
)
ASSUMPTIONS = [
    "realizable architectures (leaf importers); components pairwise unrelated in the hierarchy (full oracle); with a component that is a sub module of another component only 'some pair of unrelated components does not conform => the rule fails' is judged",
    "conformance formula: for all distinct components a, b: (some import from a or below into b or below) <=> arrow a->b; should-only mode additionally: a component with outgoing arrows imports nothing outside itself and its drawn targets",
    "aggregated message compared as a set of lines with the messages of the generated pairwise rules evaluated one by one",
]


def plan(tier, seed):
    if tier == "quick":
        shards = plan_graph_shards("A", n_max=4, chunk=8)
        shards += plan_graph_shards("B", n_max=5, n_min=5, k=1, parts=1)
    else:
        shards = plan_graph_shards("A", n_max=5, chunk=16)
        shards += plan_graph_shards("B", n_max=6, n_min=6, k=2, parts=8)
    shards += [dict(s, naming="selfprefix", bound=s["bound"] + " naming=selfprefix")
               for s in plan_graph_shards("A", n_max=4, chunk=8 if tier == "quick" else 4)]
    req = ["True/PASS", "True/FAIL", "False/PASS", "False/FAIL", "naming:short", "naming:dotted", "aggregate>1", "re-applied", "re-configured", "nested-components:must-fail"]
    return {"shards": shards, "require_nonzero": req}


def component_sets(ns):
    """(components, short-naming base or None)."""
    out = []
    non_root = ns[1:]
    parents = sorted({n.rsplit(".", 1)[0] for n in non_root})
    seen = set()
    for p in parents:
        kids = [n for n in non_root if n.rsplit(".", 1)[0] == p]
        for k in range(2, min(4, len(kids)) + 1):
            for cs in itertools.combinations(kids, k):
                out.append((cs, p))
                seen.add(cs)
    for k in (2, 3):
        for cs in itertools.combinations(non_root, k):
            if cs not in seen and unrelated(cs):
                out.append((cs, None))
    return out


def arrow_relations(comps):
    pairs = list(itertools.permutations(comps, 2))
    if len(comps) <= 3:
        for bits in range(1 << len(pairs)):
            yield [pairs[i] for i in range(len(pairs)) if bits >> i & 1]
    else:
        for r in range(0, 4):
            for sub in itertools.combinations(pairs, r):
                yield list(sub)


def diagram_text(names, arrows):
    lines = ["@startuml"] + [f"[{n}]" for n in names] + [f"[{a}] --> [{b}]" for a, b in arrows] + ["@enduml"]
    return "\n".join(lines) + "\n"


def conformance(ns, I, comps, arrows, should_only):
    D = {c: desc(c, ns) for c in comps}
    A = set(arrows)

    def edge(a, b):
        return any(u in D[a] and v in D[b] for u, v in I)

    for a in comps:
        for b in comps:
            if a != b and edge(a, b) != ((a, b) in A):
                return False
    if should_only:
        for a in comps:
            targets = [b for (x, b) in arrows if x == a]
            if not targets:
                continue
            allowed = D[a].union(*[D[t] for t in targets])
            if any(u in D[a] and v not in allowed for u, v in I):
                return False
    return True


def generated_rules(comps, arrows, should_only):
    """The pairwise rules the documentation describes, built by the harness."""
    rules = []
    deps = {}
    for a, b in arrows:
        deps.setdefault(a, []).append(b)
    for a, bs in deps.items():
        r = Rule().modules_that().are_named(a)
        r = r.should_only() if should_only else r.should()
        rules.append(r.import_modules_that().are_named(sorted(bs)))
    for a in sorted(comps):
        not_imported = sorted(set(comps) - {a} - set(deps.get(a, [])))
        if not_imported:
            rules.append(Rule().modules_that().are_named(a).should_not().import_modules_that().are_named(not_imported))
    return rules


class Files:
    def __init__(self, base):
        self.base = base
        self.known = {}

    def path(self, text):
        h = hashlib.sha1(text.encode()).hexdigest()[:16]
        if h not in self.known:
            p = os.path.join(self.base, h + ".puml")
            with open(p, "w") as f:
                f.write(text)
            self.known[h] = p
        return self.known[h]


# (should_only flag, naming option) -> one long-lived DiagramRule object, re-configured (from_file /
# with_base_module) for every case of the shard.  One object per naming option: switching an object
# from with_base_module(p) to base_module_included_in_module_names() keeps p in the implementation,
# and what such a switch should mean is specified nowhere, so it is not exercised.
REUSED = {}
REUSE_COUNT = {}


def _reused(key, should_only):
    """The long-lived rule object for key; replaced by a new one after 12 uses, so that an implementation that
    accumulates state on the object cannot slow the shard down without bound (12 re-configurations in a row are
    far more than any divergence needs to show)."""
    REUSE_COUNT[key] = REUSE_COUNT.get(key, 0) + 1
    if REUSE_COUNT[key] > 12:
        REUSED.pop(key, None)
        REUSE_COUNT[key] = 1
    return REUSED.setdefault(key, DiagramRule(should_only_rule=should_only))


def check(ns, I, comps, base_mod, arrows, should_only, ev, files, res, decoys=(), reuse=False):
    exp = PASS if conformance(ns, I, comps, arrows, should_only) else FAIL
    outcomes = {}
    # dotted naming
    text = diagram_text(comps, arrows)
    r = DiagramRule(should_only_rule=should_only).from_file(files.path(text)).base_module_included_in_module_names()
    outcomes["dotted"] = run_rule(r, ev)
    if reuse:
        # one DiagramRule object configured again and again (another file, another base module): it must
        # behave like a fresh rule with the configuration given last
        r3 = _reused((should_only, "dotted"), should_only)
        outcomes["dotted-reconfigured-object"] = run_rule(r3.from_file(files.path(text)).base_module_included_in_module_names(), ev)
        if res is not None:
            res.stats["re-configured"] += 1
    # the same DiagramRule object applied to other architectures first (rule objects are re-usable)
    for i, d in enumerate(decoys):
        r2 = DiagramRule(should_only_rule=should_only).from_file(files.path(text)).base_module_included_in_module_names()
        run_rule(r2, d)
        outcomes[f"dotted-after-decoy{i}"] = run_rule(r2, ev)
        if res is not None:
            res.stats["re-applied"] += 1
    if base_mod is not None:
        short = {c: c[len(base_mod) + 1 :] for c in comps}
        text_s = diagram_text([short[c] for c in comps], [(short[a], short[b]) for a, b in arrows])
        r = DiagramRule(should_only_rule=should_only).from_file(files.path(text_s)).with_base_module(base_mod)
        outcomes["short"] = run_rule(r, ev)
        if reuse:
            r3 = _reused((should_only, "short"), should_only)
            outcomes["short-reconfigured-object"] = run_rule(r3.from_file(files.path(text_s)).with_base_module(base_mod), ev)
            # ... and then pointed at a base module that does not exist, without touching the file: never a verdict
            undefined = run_rule(r3.with_base_module(base_mod + ".zz_undefined"), ev)
            if res is not None:
                res.stats["re-configured-undefined-base"] += 1
            if undefined[0] != "ERR":
                REUSED.pop((should_only, "short"), None)
                return ("re-configured-rule-with-undefined-base-gives-verdict", "short", "a lookup error", list(undefined))
    if res is not None:
        res.transitions += len(outcomes)
        res.evaluations += 1
        res.traces += 1
        res.stats[f"{should_only}/{exp}"] += 1
        for k in outcomes:
            res.stats[f"naming:{k.split('-')[0]}"] += 1
        if I:
            res.nontrivial += 1
    for naming, got in outcomes.items():
        if got[0] == "ERR":
            return ("unexpected-exception", naming, "PASS or FAIL", got[1])
        if got[0] != exp:
            return ("verdict", naming, exp, got[0] + (": " + got[1] if got[1] else ""))
    if "short" in outcomes and outcomes["short"] != outcomes["dotted"]:
        return ("naming-options-differ", "short", outcomes["dotted"][1], outcomes["short"][1])
    for k, got in outcomes.items():
        if k.startswith("dotted-after") and got != outcomes["dotted"]:
            return ("message-differs-after-re-application", k, outcomes["dotted"][1], got[1])
        if k.endswith("reconfigured-object") and got != outcomes[k.split("-")[0]]:
            REUSED.pop((should_only, k.split("-")[0]), None)  # continue with a fresh object after a divergence
            return ("re-configured-rule-object-differs-from-fresh-one", k, list(outcomes[k.split("-")[0]]), list(got))
    if exp == FAIL:
        msgs = []
        for rule in generated_rules(comps, arrows, should_only):
            g = run_rule(rule, ev)
            if g[0] == FAIL:
                msgs.append(g[1])
        if res is not None and len(msgs) > 1:
            res.stats["aggregate>1"] += 1
        want = sorted(line for m in msgs for line in m.split("\n"))
        got = sorted(outcomes["dotted"][1].split("\n"))
        if want != got:
            return ("aggregated-message", "dotted", want, got)
    return None


def nested_sets(ns):
    """Component sets in which one component is a sub module of another (a package and one of its own packages both
    drawn), plus one component unrelated to both."""
    non_root = ns[1:]
    out = []
    for p in non_root:
        for c in non_root:
            if c.startswith(p + "."):
                for o in non_root:
                    if unrelated((o, p)) and unrelated((o, c)):
                        out.append((o, p, c))
    return out


def check_nested(ns, I, comps, arrows, should_only, ev, files, res):
    """Nested components: only the part of the statement that does not depend on how a component and its own sub
    component relate to each other is judged - if some pair of *unrelated* components is drawn without an import
    or imports without being drawn, the rule must fail (never the other way round)."""
    D = {c: desc(c, ns) for c in comps}
    A = set(arrows)
    bad = [(a, b) for a in comps for b in comps if a != b and unrelated((a, b))
           and any(u in D[a] and v in D[b] for u, v in I) != ((a, b) in A)]
    text = diagram_text(comps, arrows)
    got = run_rule(DiagramRule(should_only_rule=should_only).from_file(files.path(text)).base_module_included_in_module_names(), ev)
    if res is not None:
        res.transitions += 1
        res.evaluations += 1
        res.stats["nested-components:" + ("must-fail" if bad else "not-judged")] += 1
        if bad:
            res.traces += 1
    if bad and got[0] != FAIL:
        return ("nested-components-verdict", "dotted", {"must": FAIL, "non-conforming pairs": [list(x) for x in bad]}, list(got))
    return None


def _decoys(ns, seed):
    """Two other architectures over the same modules: no import at all / every admissible import."""
    return [build(ns, [], seed), build(ns, admissible_pairs(ns), seed)]


def run_shard(shard, tier, seed):
    res = Result(shard["bound"])
    base = scratch_dir(f"c07-{abs(hash(str(shard))) % 10**8}")
    files = Files(base)
    try:
        for ns, I in shard_graphs(shard, seed):
            ns, I = renamed_graph(ns, I, shard.get("naming", "identity"))
            ev = build(ns, I, seed)
            dec = _decoys(ns, seed)
            res.states += 1
            for comps, base_mod in component_sets(ns):
                for arrows in arrow_relations(comps):
                    for so in (True, False):
                        v = check(ns, I, comps, base_mod, arrows, so, ev, files, res, dec, reuse=True)
                        if v:
                            res.violation(v[0], {"modules": ns, "imports": I, "components": list(comps), "base": base_mod,
                                                 "arrows": [list(a) for a in arrows], "should_only": so, "naming": v[1], "seed": seed}, v[2], v[3])
                if len(res.samples) < 1 and I:
                    res.sample({"modules": ns, "imports": I, "components": list(comps), "diagram": diagram_text(comps, [(comps[0], comps[1])])})
            for comps in nested_sets(ns):
                pairs = [(a, b) for a in comps for b in comps if a != b and unrelated((a, b))]
                for bits in range(1 << len(pairs)):
                    arrows = [pairs[i] for i in range(len(pairs)) if bits >> i & 1]
                    for so in (True, False):
                        v = check_nested(ns, I, comps, arrows, so, ev, files, res)
                        if v:
                            res.violation(v[0], {"nested": True, "modules": ns, "imports": I, "components": list(comps), "base": None,
                                                 "arrows": [list(a) for a in arrows], "should_only": so, "naming": v[1], "seed": seed}, v[2], v[3])
    finally:
        remove_scratch(base)
    return res


def _check_case(case):
    ns, I = case["modules"], [tuple(e) for e in case["imports"]]
    base = scratch_dir("c07-replay")
    try:
        ev = build(ns, I, case.get("seed", 0))
        if case.get("nested"):
            v = check_nested(ns, I, tuple(case["components"]), [tuple(a) for a in case["arrows"]], case["should_only"], ev, Files(base), None)
            return (v[0], v[2], v[3]) if v else None
        v = check(ns, I, tuple(case["components"]), case["base"], [tuple(a) for a in case["arrows"]], case["should_only"], ev, Files(base), None,
                  _decoys(ns, case.get("seed", 0)))
        return (v[0], v[2], v[3]) if v else None
    finally:
        remove_scratch(base)


def minimise(v):
    case = dict(v["case"])
    kind = v["kind"]
    changed = True
    while changed:
        changed = False
        for e in list(case["imports"]):
            trial = dict(case, imports=[x for x in case["imports"] if x != e])
            r = _check_case(trial)
            if r and r[0] == kind:
                case, changed = trial, True
        for a in list(case["arrows"]):
            trial = dict(case, arrows=[x for x in case["arrows"] if x != a])
            r = _check_case(trial)
            if r and r[0] == kind:
                case, changed = trial, True
    r = _check_case(case)
    v = dict(v, case=case, expected=r[1], observed=r[2])
    v["signature"] = f"{kind}:{case['naming']}:only{case['should_only']}:comps{len(case['components'])}:arrows{len(case['arrows'])}:edges{len(case['imports'])}"
    return v


def replay(rec):
    r = _check_case(rec["case"])
    if r:
        return [{"kind": r[0], "case": rec["case"], "expected": r[1], "observed": r[2]}]
    return []
