"""C08 - exclusions remove exactly the matching files/directories, nothing else
(E3 + exhaustive string space for the glob -> regex conversion)."""

from __future__ import annotations

import itertools
import os
import re

from ..common import call, remove_scratch, scratch_dir, write_tree
from ..engine import Result
from ..refmodel import glob_matches
from ..scan import observed, scan
from ..scanmodel import all_dirs, drop_ancestor_edges, model_scan, source

from pytestarch.utils.partial_match_to_regex_converter import convert_partial_match_to_regex  # noqa: E402

ID = "C08"
RULE = (
    "(a) every glob pattern over {a, b, *, ., +, $} up to the length bound x every subject string "
    "over {a, b, ., +, *} up to length 4: re.match(convert_partial_match_to_regex(p), s) must "
    "equal the literal glob model (one leading * = any prefix, one trailing * = any suffix, "
    "everything else literal, matched in full); (b) every directory tree with up to N entries "
    "(names a, ab, a+b; files and directories, depth <= 3) plus feature trees with regex "
    "metacharacters in names and __pycache__ x every exclusion tuple of size 1-2 built from every "
    "entry in the glob shapes (*name, *name*, */name, */name/*, absolute path, absolute path*) "
    "and regex shapes (.*name, .*name$, .*/name/.*, escaped absolute path, open-ended prefix): "
    "the real filtered scan must equal the model (unfiltered tree minus excluded entries and "
    "everything below) and the unfiltered real scan restricted to the survivors. A case is one "
    "(pattern, string) pair resp. one (tree, exclusion tuple) scan; non-trivial = the pattern "
    "contains a metacharacter / the exclusion removes at least one but not every entry"
)
ASSUMPTIONS = [
    "A1-A3 tree assumptions; scratch base path /dev/shm/vrf/<digits> contains none of the characters used in entry names",
    "import statements in the trees are plain 'import top.x.y' forms whose resolution does not depend on which modules survive",
    "patterns are matched against the path string of the entry (files: absolute resolved path)",
]

SIGMA_P = "ab*.+$"
SIGMA_S = "ab.+*"


def plan(tier, seed):
    plen = 5 if tier == "quick" else 6
    shards = []
    firsts = list(SIGMA_P)
    for f in firsts:
        for g in firsts:
            shards.append({"part": "convert", "prefix": f + g, "plen": plen, "bound": f"glob conversion patterns<={plen}"})
    shards.append({"part": "convert", "prefix": "", "plen": 1, "bound": f"glob conversion patterns<={plen}"})
    n_entries = 4 if tier == "quick" else 5
    trees = tree_space(n_entries)
    step = 12 if tier == "quick" else 24
    for lo in range(0, len(trees), step):
        shards.append({"part": "scan", "lo": lo, "hi": lo + step, "n": n_entries, "tuple": 2,
                       "bound": f"trees<={n_entries} entries"})
    shards.append({"part": "feature", "tuple": 2, "bound": "feature trees"})
    return {"shards": shards, "require_nonzero": ["convert:match", "convert:nomatch", "scan:partial", "scan:none", "regex", "glob", "module_path-below-root", "externals-included", "empty-exclusion-tuples", "regex-with-empty-glob-tuple"]}


# ------------------------------------------------------------------------- (a) conversion


def run_convert(shard, res):
    subjects = [""] + ["".join(t) for n in range(1, 5) for t in itertools.product(SIGMA_S, repeat=n)]
    pre = shard["prefix"]
    if pre == "":
        patterns = [""] + list(SIGMA_P)
    else:
        patterns = [pre + "".join(t) for n in range(0, shard["plen"] - 1) for t in itertools.product(SIGMA_P, repeat=n)]
    for p in patterns:
        out = call(convert_partial_match_to_regex, p)
        res.states += 1
        if out[0] != "OK":
            res.violation("conversion-raised", {"part": "convert", "pattern": p}, "a regex", list(out[:2]))
            continue
        try:
            rx = re.compile(out[1])
        except re.error as e:
            res.violation("conversion-gives-invalid-regex", {"part": "convert", "pattern": p}, "a valid regex", f"{out[1]!r}: {e}")
            continue
        special = any(c in p for c in ".+$") or p.count("*") > (p.startswith("*") + p.endswith("*"))
        for s in subjects:
            got = rx.match(s) is not None
            exp = glob_matches(p, s)
            res.transitions += 1
            res.stats["convert:match" if exp else "convert:nomatch"] += 1
            if special:
                res.nontrivial += 1
            if got != exp:
                res.violation("glob-conversion", {"part": "convert", "pattern": p, "string": s}, exp, got)
                break
        res.traces += len(subjects)
        res.evaluations += len(subjects)
    res.sample({"pattern": "*a.b", "regex": convert_partial_match_to_regex("*a.b"), "matches": "xa.b", "not": "xaxb"})


# ------------------------------------------------------------------------------ (b) trees

NAMES = ["a", "ab", "a+b"]


def tree_space(n_entries):
    """All sets of entries (relative paths, 'd' or 'f') closed under parents, depth <= 3."""
    out = []

    def extend(entries, dirs):
        key = tuple(sorted(entries.items()))
        out.append(key)
        if len(entries) >= n_entries:
            return
        for parent in [""] + sorted(dirs):
            if parent.count("/") >= 2:
                continue
            for nm in NAMES:
                for kind in ("f", "d"):
                    rel = (parent + "/" if parent else "") + nm + (".py" if kind == "f" else "")
                    stem = (parent + "/" if parent else "") + nm
                    if rel in entries or stem in entries or stem + ".py" in entries:
                        continue  # A3: no file and directory with the same stem
                    if entries and rel < max(entries):
                        continue  # canonical order: add in increasing path order only
                    e2 = dict(entries)
                    e2[rel] = kind
                    extend(e2, dirs | ({rel} if kind == "d" else set()))

    extend({}, set())
    seen, res = set(), []
    for k in out:
        if k and k not in seen:
            seen.add(k)
            res.append(dict(k))
    return res


FEATURE_TREES = [
    {"a$.py": "f", "a[b].py": "f", "a(b": "d", "a(b/c.py": "f", "b.py": "f"},
    {"__pycache__": "d", "__pycache__/x.py": "f", "pkg": "d", "pkg/__pycache__": "d", "pkg/__pycache__/y.py": "f", "pkg/m.py": "f", "cache.py": "f"},
    {"core": "d", "core/x.py": "f", "core/xy.py": "f", "corex": "d", "corex/m.py": "f", "gen_a.py": "f", "gen": "d", "gen/gen_b.py": "f", "legacy": "d", "legacy/old.py": "f", "legacy/sub": "d", "legacy/sub/o.py": "f"},
    {"tests": "d", "tests/t.py": "f", "tests/deep": "d", "tests/deep/u.py": "f", "a_test.py": "f", "testsx.py": "f", "x": "d", "x/tests": "d", "x/tests/v.py": "f"},
]


def materialise(base, entries):
    """-> files dict (rel under base incl. 'top/') with import facts, dirs set."""
    files, dirs = {}, {"top"}
    mods = []
    for rel, kind in entries.items():
        if kind == "d":
            dirs.add("top/" + rel)
        else:
            name = "top." + rel[:-3].replace("/", ".")
            if re.fullmatch(r"[A-Za-z_][\w.]*", name):
                mods.append(name)
    for rel, kind in entries.items():
        if kind == "f":
            me = "top." + rel[:-3].replace("/", ".")
            files["top/" + rel] = [("import", m) for m in mods if m != me]
    return files, dirs


def patterns_for(base, entries, tuple_size):
    globs, regexes = [], []
    for rel in entries:
        name = os.path.basename(rel)
        stem = name[:-3] if name.endswith(".py") else name
        absolute = os.path.join(base, "top", rel)
        globs += ["*" + name, "*" + stem + "*", "*/" + name, "*/" + stem + "/*", absolute, absolute + "*", stem, stem + "*", "**" + name, "*" + name + "**"]
        # the same text in another letter case matches nothing (paths are compared case-sensitively)
        globs += ["*" + name.upper(), "*" + stem.capitalize() + "*"]
        regexes += [".*" + re.escape(name.upper()), ".*/" + re.escape(stem.capitalize()) + "(/.*|\\.py)?$"]
        regexes += [".*" + re.escape(name), ".*/" + re.escape(name) + "$", ".*/" + re.escape(stem) + "/.*", re.escape(absolute), ".*/" + re.escape(stem[:1]),
                    re.escape(stem)]
    globs = list(dict.fromkeys(globs))
    regexes = list(dict.fromkeys(regexes))
    out = []
    for r in range(1, tuple_size + 1):
        lim_g = globs if r == 1 else globs[:8]
        lim_r = regexes if r == 1 else regexes[:6]
        out += [("glob", c) for c in itertools.combinations(lim_g, r)]
        out += [("regex", c) for c in itertools.combinations(lim_r, r)]
    return out


def _obs(o):
    if o[0] != "OK":
        return list(o[:2])
    return {"modules": sorted(o[1][0]), "imports": sorted(map(list, o[1][1]))}


def check_tree(base, entries, tuple_size, res, only=None):
    viol = []
    files, dirs = materialise(base, entries)
    write_tree(base, {rel: source(fs) for rel, fs in files.items()}, dirs)
    root = os.path.join(base, "top")
    # module_path: the root and every directory directly below it (exclusions combined with a
    # module_path below root_path)
    mps = ["top"] + sorted(d for d in dirs if d.count("/") == 1)
    for mp_rel in mps:
        mp = os.path.join(base, mp_rel)
        un = observed(scan(root, mp, exclusions=("nomatch",)))
        # no exclusion at all, asked for with empty tuples: the same architecture as with a pattern that matches nothing
        for empty in ({"exclusions": (), "regex_exclusions": ()}, {"exclusions": None, "regex_exclusions": ()}):
            oe = call(lambda: observed(scan(root, mp, **empty)))
            if res is not None:
                res.transitions += 1
                res.stats["empty-exclusion-tuples"] += 1
            if oe[0] != "OK" or oe[1] != un:
                viol.append(("empty-exclusion-tuple-changes-the-architecture", ["empty", [repr(empty["exclusions"])]] + ([mp_rel] if mp_rel != "top" else []),
                             _obs(("OK", un)), _obs(oe)))
        for kind, pats in patterns_for(base, entries, tuple_size if mp_rel == "top" else 1):
            case_key = [kind, list(pats)] + ([mp_rel] if mp_rel != "top" else [])
            if only is not None and only != case_key:
                continue
            if kind == "glob":
                excluded = lambda p, ps=pats: any(glob_matches(g, p) for g in ps)  # noqa: E731
                opts = {"exclusions": tuple(pats)}
            else:
                excluded = lambda p, ps=pats: any(re.match(g, p) for g in ps)  # noqa: E731
                opts = {"exclusions": None, "regex_exclusions": tuple(pats)}
            m = model_scan(files, dirs, "top", mp_rel, base, excluded)
            out = call(lambda: observed(scan(root, mp, **opts)))
            if len(pats) == 1 and mp_rel == "top":
                # option combination: the same exclusion with external libraries included (these trees import
                # nothing external, so the architecture must be exactly the same)
                out_ext = call(lambda: observed(scan(root, mp, exclude_external_libraries=False, **opts)))
                if res is not None:
                    res.transitions += 1
                    res.stats["externals-included"] += 1
                if out_ext[0] != out[0] or (out[0] == "OK" and out_ext[1] != out[1]):
                    viol.append(("exclusion-differs-with-external-libraries-included", case_key, _obs(out), _obs(out_ext)))
                    continue
                if kind == "regex":
                    # "no glob exclusions" can be said with None or with an empty tuple: the regex exclusions apply alike
                    out_empty = call(lambda: observed(scan(root, mp, exclusions=(), regex_exclusions=tuple(pats))))
                    if res is not None:
                        res.transitions += 1
                        res.stats["regex-with-empty-glob-tuple"] += 1
                    if out_empty[0] != out[0] or (out[0] == "OK" and out_empty[1] != out[1]):
                        viol.append(("regex-exclusions-differ-with-empty-glob-tuple", case_key, _obs(out), _obs(out_empty)))
                        continue
            if res is not None:
                res.states += 1
                res.transitions += 1
                res.evaluations += 1
                res.traces += 1
                res.stats[kind] += 1
                if mp_rel != "top":
                    res.stats["module_path-below-root"] += 1
                full = len(model_scan(files, dirs, "top", mp_rel, base, None)["modules"])
                left = len(m["modules"])
                res.stats["scan:none" if left == full else "scan:all" if left <= 1 else "scan:partial"] += 1
                if 1 < left < full:
                    res.nontrivial += 1
            if excluded(mp):
                # the scanned directory itself is excluded: nothing below it may appear
                if out[0] == "OK" and any(x.startswith(mp_rel.replace("/", ".") + ".") for x in out[1][0]):
                    viol.append(("excluded-root-still-scanned", case_key, [mp_rel], sorted(out[1][0])))
                continue
            if out[0] != "OK":
                viol.append(("scan-raised", case_key, "an architecture", list(out[:2])))
                continue
            mods, edges, _ = out[1]
            edges = drop_ancestor_edges(edges)
            if mods != m["modules"]:
                viol.append(("modules-after-exclusion", case_key, sorted(m["modules"]), sorted(mods)))
                continue
            if edges != drop_ancestor_edges(m["must"]):
                viol.append(("imports-after-exclusion", case_key, sorted(map(list, drop_ancestor_edges(m["must"]))), sorted(map(list, edges))))
                continue
            # differential: survivors keep exactly what they had in the unfiltered scan
            restricted = {(u, v) for (u, v) in drop_ancestor_edges(un[1]) if u in mods and v in mods}
            if edges != restricted or not mods <= un[0]:
                viol.append(("differs-from-unfiltered-scan-restricted-to-survivors", case_key, sorted(map(list, restricted)), sorted(map(list, edges))))
    return viol


def run_shard(shard, tier, seed):
    res = Result(shard["bound"])
    if shard["part"] == "convert":
        run_convert(shard, res)
        return res
    if shard["part"] == "scan":
        trees = tree_space(shard["n"])[shard["lo"] : shard["hi"]]
    else:
        trees = FEATURE_TREES
    for i, entries in enumerate(trees):
        base = scratch_dir(f"c08-{shard.get('lo', 'f')}-{i}")
        try:
            for kind, key, exp, got in check_tree(base, entries, shard["tuple"], res):
                rel_key = [key[0], [p.replace(base, "<base>") for p in key[1]]] + key[2:]
                res.violation(kind, {"part": "scan", "entries": entries, "key": rel_key}, exp, got)
            if i == 0:
                res.sample({"entries": entries, "exclusions": ["*" + sorted(entries)[0]]})
        finally:
            remove_scratch(base)
    return res


def _check_case(case):
    if case["part"] == "convert":
        p, s = case["pattern"], case.get("string", "")
        out = call(convert_partial_match_to_regex, p)
        if out[0] != "OK":
            return ("conversion-raised", "a regex", list(out[:2]))
        got = re.match(out[1], s) is not None
        if got != glob_matches(p, s):
            return ("glob-conversion", glob_matches(p, s), got)
        return None
    base = scratch_dir("c08-replay")
    try:
        key = [case["key"][0], [p.replace("<base>", base) for p in case["key"][1]]] + list(case["key"][2:])
        v = check_tree(base, case["entries"], 2, None, only=key)
        if v:
            return (v[0][0], v[0][2], v[0][3])
        return None
    finally:
        remove_scratch(base)


def minimise(v):
    v = dict(v)
    c = v["case"]
    if c["part"] == "convert":
        p = c["pattern"]
        shape = ("lead" if p.startswith("*") else "") + ("trail" if p.endswith("*") and len(p) > 1 else "")
        v["signature"] = f"{v['kind']}:{shape or 'exact'}:stars{p.count('*')}:meta{int(any(ch in p for ch in '.+$'))}"
    else:
        pats = c["key"][1]
        shapes = sorted({("abs" if "<base>" in p else "rel") + ("-lead" if p.startswith(("*", ".*")) else "") + ("-trail" if p.endswith(("*", ".*")) else "") for p in pats})
        v["signature"] = f"{v['kind']}:{c['key'][0]}:{'+'.join(shapes)}"
    return v


def replay(rec):
    r = _check_case(rec["case"])
    if r:
        return [{"kind": r[0], "case": rec["case"], "expected": r[1], "observed": r[2]}]
    return []
