"""C09 - level_limit yields the quotient graph and preserves verdicts above the limit (E1 + E3)."""

from __future__ import annotations

import itertools
import os

from ..common import graph_snapshot, remove_scratch, run_rule, scratch_dir, write_tree
from ..engine import Result
from ..impl import BIG_TREES, build, mkrule, plan_graph_shards, rule_specs, shard_graphs
from ..refmodel import spec_to_json, truncate
from ..scan import observed, scan
from ..scanmodel import source
from ..spaces import anc, depth_of, renamed_graph, trees

ID = "C09"
RULE = (
    "(a) every architecture of the stated bounds x every level limit k in 1..depth: the graph built "
    "with level_limit=k must equal the model quotient of the unlimited graph (nodes truncated to k "
    "levels, hierarchy edges between surviving nodes, import a->b iff some pre-image edge and "
    "a != b), and every rule of the antichain rule space whose named modules lie at level <= k "
    "(parents of 'sub modules of' at level < k) must have the same verdict on the limited and the "
    "unlimited architecture; (b) real project trees on tmpfs x every module_path x every k: the "
    "real scan with level_limit=k equals the model quotient of the real unlimited scan, with k "
    "counted from module_path; (c) the same for a depth-4 skeleton project with exactly one import "
    "statement at a time: every (importer file, target module, import form incl. relative "
    "spellings through every ancestor package) x module_path x k x externals on/off, so no "
    "second import can mask a lost edge. A case is one (architecture, k) pair resp. one (architecture, k, "
    "rule) triple; non-trivial = the quotient merges at least two modules"
)
ASSUMPTIONS = [
    "realizable architectures (leaf importers); verdict preservation is claimed for pairwise unrelated subject/object identifiers only (for related ones an import inside the subject is legitimately lost by the quotient)",
    "level_limit >= 0 for the graph quotient (0 = only the root module remains); verdict preservation for k >= 1",
]


def plan(tier, seed):
    if tier == "quick":
        shards = plan_graph_shards("A", n_max=5, chunk=64)
        shards += plan_graph_shards("B", n_max=6, n_min=6, k=1, parts=2)
    else:
        shards = plan_graph_shards("A", n_max=5, chunk=32)
        shards += plan_graph_shards("B", n_max=6, n_min=6, k=2, parts=8)
        shards += plan_graph_shards("B", k=2, parts=8, with_ext=True, tree_list=list(BIG_TREES))
    # package importers (a module file next to a package of the same stem): a module that has sub modules imports
    # an unrelated module or one of its own deeper descendants, which the limit may merge into its direct child
    shards += plan_graph_shards("N", n_max=5 if tier == "quick" else 6, n_min=3, k=1 if tier == "quick" else 2, parts=2)
    adv = plan_graph_shards("A", n_max=4 if tier == "quick" else 5, chunk=64)
    shards += [dict(s, naming="adversarial", bound=s["bound"] + " naming=adversarial") for s in adv]
    shards += [dict(s, naming="unicode", bound=s["bound"] + " naming=unicode (non-ASCII identifiers)") for s in adv]
    shards += [dict(s, naming="hyphen", bound=s["bound"] + " naming=hyphen (characters sorting before the dot)") for s in adv]
    shards += [dict(s, naming="selfprefix", bound=s["bound"] + " naming=selfprefix (a component repeats its parent's name)") for s in adv]
    for s in shards:
        s["part"] = "graph"
        s["rules"] = True
    shards.append({"part": "scan", "bound": "real scans with level_limit"})
    n = len(skeleton_statements())
    step = 24
    for lo in range(0, n, step):
        shards.append({"part": "skeleton", "lo": lo, "hi": lo + step, "bound": "single-statement skeleton scans with level_limit"})
    return {"shards": shards, "require_nonzero": ["quotient", "merging", "verdict:PASS", "verdict:FAIL", "layer-verdict", "scan", "skeleton", "skeleton:edge-survives", "skeleton:parent-relative-spelling"]}


def _count(t):
    return 1 + sum(_count(c) for c in t)


def model_quotient_snapshot(ns, I, k):
    qn = sorted({truncate(n, k) for n in ns})
    hier = {(p, c) for c in qn for p in qn if c.rsplit(".", 1)[0] == p and c != p and "." in c}
    imps = {(truncate(u, k), truncate(v, k)) for u, v in I}
    imps = {(u, v) for u, v in imps if u != v}
    edges = {}
    for e in hier:
        edges[e] = True
    for e in imps:
        if e not in edges:
            edges[e] = False
    return (tuple(qn), tuple(sorted((u, v, inh) for (u, v), inh in edges.items())))


_SPECS = {}


def _specs(ns):
    key = tuple(ns)
    if key not in _SPECS:
        _SPECS.clear()
        big = len(ns) > 6
        _SPECS[key] = rule_specs(ns, max_s=2 if big else 2, max_o=2, aliases=True)
    return _SPECS[key]


def eligible(spec, k):
    def ok(kind, names):
        for n in names or ():
            lvl = n.count(".")
            if kind == "sub":
                if lvl >= k:
                    return False
            elif lvl > k:
                return False
        return True

    return ok(spec["sk"], spec["subj"]) and ok(spec.get("ok"), spec.get("obj"))


def check_graph(ns, I, seed, res, with_rules=True, only=None):
    viol = []
    full = build(ns, I, seed)
    d = depth_of(ns)
    for k in range(0, d + 1):  # k = 0: everything collapses into the root module
        lim = build(ns, I, seed, level_limit=k)
        got = graph_snapshot(lim)
        exp = model_quotient_snapshot(ns, I, k)
        if res is not None:
            res.transitions += 1
            res.traces += 1
            res.stats["quotient"] += 1
            if len(exp[0]) < len(ns):
                res.stats["merging"] += 1
                res.nontrivial += 1
        if got != exp:
            viol.append(("limited-graph-is-not-the-quotient", k, None, _snap(exp), _snap(got)))
            continue
        if not with_rules or k == d or k == 0:
            continue
        if any(truncate(v, k).rsplit(".", 1)[0] == truncate(u, k) and truncate(v, k) != truncate(u, k) for u, v in I):
            # a package imports one of its own deeper descendants and the limit merges the importee into the package's
            # direct child: import and hierarchy edge coincide.  The hierarchy must survive (checked above); the import
            # cannot be represented next to it - the corner recorded in DESIGN §8 (a parent importing its direct child),
            # outside the realizable domain (tree assumption A3) - so verdicts are not compared for this k
            if res is not None:
                res.stats["not-judged:import-coincides-with-hierarchy-edge"] += 1
            continue
        # layer rules whose layers list modules at or above the limit: same verdict on both
        if only is None or (isinstance(only, dict) and "layers" in only):
            from .c05 import layer_rule_specs, layerings
            from ..impl import mk_layer_rule, mk_layered_architecture

            for layers in layerings(ns):
                if any(m.count(".") > k for ms in layers.values() for m in ms):
                    continue
                defs = [(name, ("names", list(ms))) for name, ms in layers.items()]
                for lspec in layer_rule_specs(layers):
                    if only is not None and (only["layers"] != layers or only["rule"] != lspec):
                        continue
                    a = run_rule(mk_layer_rule(mk_layered_architecture(defs, seed), lspec, seed), full)
                    b = run_rule(mk_layer_rule(mk_layered_architecture(defs, seed), lspec, seed), lim)
                    if res is not None:
                        res.transitions += 2
                        res.evaluations += 1
                        res.traces += 1
                        res.stats["layer-verdict"] += 1
                    if a[0] != b[0]:
                        viol.append(("layer-rule-verdict-differs-on-limited-architecture", k, {"layers": layers, "rule": lspec}, a[0], b[0] + ": " + b[1][:200]))
        for spec in _specs(ns):
            if not eligible(spec, k):
                continue
            if only is not None and spec_to_json(spec) != only:
                continue
            a = run_rule(mkrule(spec, seed), full)
            b = run_rule(mkrule(spec, seed), lim)
            if res is not None:
                res.transitions += 2
                res.evaluations += 1
                res.traces += 1
                res.stats[f"verdict:{a[0]}"] += 1
            if a[0] != b[0]:
                viol.append(("verdict-differs-on-limited-architecture", k, spec_to_json(spec), a[0], b[0] + ": " + b[1][:200]))
    return viol


def _snap(s):
    return {"modules": list(s[0]), "edges": [list(e) for e in s[1]]}


# ----------------------------------------------------------------------------- (b) scans

LAYOUTS = {
    "deep": {
        "top/__init__.py": [],
        "top/a.py": [("import", "top.p.q.r.s")],
        "top/p/__init__.py": [],
        "top/p/x.py": [("import", "top.a"), ("rel", 1, "q", ("y",)), ("rel", 1, "q.r", ("s",)), ("rel", 1, "q.r.t", ("name",))],
        "top/p/q/__init__.py": [],
        "top/p/q/y.py": [("rel", 2, "", ("x",))],
        "top/p/q/r/__init__.py": [],
        "top/p/q/r/s.py": [("import", "top.p.x"), ("rel", 1, "", ("t",))],
        "top/p/q/r/t.py": [("from", "top.p.q", ("y",))],
        "top/p/w/z.py": [("import", "top.p.q.r.t")],
    },
    # pure grouping directories: no python file directly inside (only sub packages), nothing below them imports
    "grouping": {
        "top/__init__.py": [],
        "top/x.py": [("import", "top.g.h.m")],
        "top/g/h/m.py": [],
        "top/g/h2/n.py": [],
        "top/e/f/leaf.py": [],
    },
    "wide": {
        "top/a/__init__.py": [],
        "top/a/m.py": [("import", "top.b.m"), ("import", "top.b.n.o"), ("rel", 2, "b.n", ("o",)), ("rel", 2, "b.n.o", ("name",))],
        "top/a/k/__init__.py": [("rel", 3, "b.n.o", ("name",)), ("rel", 2, "m", ("name",))],
        "top/b/__init__.py": [],
        "top/b/m.py": [("import", "top.a.m")],
        "top/b/n/o.py": [("import", "top.b.m"), ("import", "top.c")],
        "top/c.py": [("import", "top.a")],
    },
}


def scan_cases(res, only=None):
    base = scratch_dir("c09")
    viol = []
    try:
        for lname, layout in LAYOUTS.items():
            d = os.path.join(base, lname)
            write_tree(d, {rel: source(fs) for rel, fs in layout.items()})
            dirs = sorted({os.path.dirname(r) for r in layout})
            root = os.path.join(d, "top")
            for mp_rel in dirs:
                mp = os.path.join(d, mp_rel)
                offset = mp_rel.count("/")
                for opts in ({}, {"exclude_external_libraries": False}):
                    full = observed(scan(root, mp, **opts))
                    maxdepth = max(m.count(".") for m in full[0]) - offset
                    for k in range(0, max(1, maxdepth) + 1):
                        key = [lname, mp_rel, k, sorted(opts)]
                        if only is not None and only != key:
                            continue
                        lim = observed(scan(root, mp, level_limit=k, **opts))
                        kk = k + offset
                        exp_mods = {truncate(m, kk) for m in full[0]}
                        exp_imps = {(truncate(u, kk), truncate(v, kk)) for u, v in full[1]}
                        exp_imps = {(u, v) for u, v in exp_imps if u != v}
                        exp_hier = {(p, c) for c in exp_mods for p in exp_mods if "." in c and c.rsplit(".", 1)[0] == p}
                        exp_imps -= exp_hier
                        if res is not None:
                            res.states += 1
                            res.transitions += 2
                            res.traces += 1
                            res.stats["scan"] += 1
                            if len(exp_mods) < len(full[0]):
                                res.nontrivial += 1
                        got = (lim[0], lim[1] - exp_hier, lim[2])
                        if got != (exp_mods, exp_imps, exp_hier):
                            viol.append(("limited-scan-is-not-the-quotient", key,
                                         {"modules": sorted(exp_mods), "imports": sorted(map(list, exp_imps))},
                                         {"modules": sorted(lim[0]), "imports": sorted(map(list, lim[1]))}))
    finally:
        remove_scratch(base)
    return viol


# ------------------------------------------------- (c) one import statement at a time

SKELETON = {
    "top/__init__.py": "",
    "top/a.py": "",
    "top/w/__init__.py": "",
    "top/w/v.py": "",
    "top/w/k/u.py": "",
    "top/c/__init__.py": "",
    "top/c/x.py": "",
    "top/c/m/__init__.py": "",
    "top/c/m/o/__init__.py": "",
    "top/c/m/o/t.py": "",
}


def skeleton_modules():
    mods = {"top"}
    for rel in SKELETON:
        parts = rel[:-3].split("/")
        for i in range(1, len(parts) + 1):
            mods.add(".".join(parts[:i]))
    return sorted(mods)


def skeleton_statements():
    """Every (importer file, target module, import form): absolute import, from-import of the
    module, from-import of a name in it, and the relative spellings through *every* ancestor
    package of the importer that contains the target (so the dotted relative part has 0..3
    components)."""
    mods = skeleton_modules()
    out = []
    for rel in sorted(SKELETON):
        imod = rel[:-3].replace("/", ".")
        pkg = imod.rsplit(".", 1)[0]
        for target in mods:
            if target == imod or imod.startswith(target + ".") or target == "top":
                continue
            parent, _, leaf = target.rpartition(".")
            forms = [("import", f"import {target}"), ("from", f"from {parent} import {leaf}"), ("from-name", f"from {target} import name")]
            anc_, level = pkg, 1
            while True:
                if target.startswith(anc_ + "."):
                    relname = target[len(anc_) + 1 :]
                    rp, _, rl = relname.rpartition(".")
                    dots = "." * level
                    forms.append((f"rel{level}-from", f"from {dots}{rp} import {rl}"))
                    forms.append((f"rel{level}-from-name", f"from {dots}{relname} import name"))
                if "." not in anc_:
                    break
                anc_, level = anc_.rsplit(".", 1)[0], level + 1
            for fid, stmt in forms:
                out.append((rel, imod, target, fid, stmt))
    return out


def skeleton_cases(res, lo=0, hi=None, only=None):
    base = scratch_dir(f"c09-skel-{lo}")
    viol = []
    try:
        write_tree(base, SKELETON)
        root = os.path.join(base, "top")
        cases = skeleton_statements()
        for rel, imod, target, fid, stmt in cases[lo:hi]:
            path = os.path.join(base, rel)
            with open(path, "w") as f:
                f.write(stmt + "\n")
            try:
                for mp_rel in ("top", "top/w", "top/c"):
                    mp_mod = mp_rel.replace("/", ".")
                    if mp_rel != "top" and not imod.startswith(mp_mod + "."):
                        continue
                    mp = os.path.join(base, mp_rel)
                    offset = mp_rel.count("/")
                    spellings = [stmt]
                    if mp_rel != "top" and not fid.startswith("rel") and (target + ".").startswith(mp_mod + "."):
                        # src-layout spelling: absolute import written relative to module_path's parent
                        spellings.append(stmt.replace("top." + mp_mod.split(".", 1)[1], mp_mod.split(".", 1)[1], 1))
                    for spelled, opts in [(sp, o) for sp in spellings for o in ({}, {"exclude_external_libraries": False})]:
                        if spelled != stmt and opts:
                            continue
                        with open(path, "w") as f:
                            f.write(spelled + "\n")
                        full = observed(scan(root, mp, **opts))
                        maxdepth = max(m.count(".") for m in full[0]) - offset
                        for k in range(0, max(1, maxdepth) + 1):
                            key = [rel, spelled, mp_rel, k, sorted(opts)]
                            if only is not None and only != key:
                                continue
                            lim = observed(scan(root, mp, level_limit=k, **opts))
                            kk = k + offset
                            exp_mods = {truncate(m, kk) for m in full[0]}
                            exp_imps = {(truncate(u, kk), truncate(v, kk)) for u, v in full[1]}
                            exp_imps = {(u, v) for u, v in exp_imps if u != v}
                            exp_hier = {(p, c) for c in exp_mods for p in exp_mods if "." in c and c.rsplit(".", 1)[0] == p}
                            exp_imps -= exp_hier
                            if res is not None:
                                res.states += 1
                                res.transitions += 2
                                res.traces += 1
                                res.stats["skeleton"] += 1
                                if spelled != stmt:
                                    res.stats["skeleton:parent-relative-spelling"] += 1
                                if exp_imps:
                                    res.stats["skeleton:edge-survives"] += 1
                                    res.nontrivial += 1
                            got = (lim[0], lim[1] - exp_hier, lim[2])
                            if got != (exp_mods, exp_imps, exp_hier):
                                viol.append(("limited-scan-is-not-the-quotient", key,
                                             {"modules": sorted(exp_mods), "imports": sorted(map(list, exp_imps))},
                                             {"modules": sorted(lim[0]), "imports": sorted(map(list, lim[1]))}, fid))
            finally:
                with open(path, "w") as f:
                    f.write("")
    finally:
        remove_scratch(base)
    return viol


def run_shard(shard, tier, seed):
    res = Result(shard["bound"])
    if shard["part"] == "skeleton":
        for kind, key, exp, got, fid in skeleton_cases(res, shard["lo"], shard["hi"]):
            res.violation(kind, {"part": "skeleton", "key": key, "form": fid}, exp, got)
        res.sample({"skeleton": sorted(SKELETON), "file": "top/w/v.py", "statement": "from ..c.m.o import t", "module_path": "top", "level_limit": 1})
        return res
    if shard["part"] == "scan":
        for kind, key, exp, got in scan_cases(res):
            res.violation(kind, {"part": "scan", "key": key}, exp, got)
        res.sample({"layout": "deep", "module_path": "top/p", "level_limit": 1})
        return res
    for ns, I in shard_graphs(shard, seed):
        ns, I = renamed_graph(ns, I, shard.get("naming", "identity"))
        res.states += 1
        for kind, k, spec, exp, got in check_graph(ns, I, seed, res, shard.get("rules", True)):
            res.violation(kind, {"part": "graph", "modules": ns, "imports": I, "level_limit": k, "rule": spec, "seed": seed}, exp, got)
        if res.states == 1 and I:
            res.sample({"modules": ns, "imports": I, "level_limit": 1, "quotient": _snap(model_quotient_snapshot(ns, I, 1))})
    return res


def _check_case(case):
    if case["part"] == "skeleton":
        v = skeleton_cases(None, only=case["key"])
        return (v[0][0], v[0][2], v[0][3]) if v else None
    if case["part"] == "scan":
        v = scan_cases(None, only=case["key"])
        return (v[0][0], v[0][2], v[0][3]) if v else None
    ns, I = case["modules"], [tuple(e) for e in case["imports"]]
    for kind, k, spec, exp, got in check_graph(ns, I, case.get("seed", 0), None, True, only=case.get("rule")):
        if k == case["level_limit"] and (case.get("rule") is None) == (spec is None):
            return (kind, exp, got)
    return None


def minimise(v):
    case = dict(v["case"])
    if case["part"] == "graph":
        changed = True
        while changed:
            changed = False
            for e in list(case["imports"]):
                trial = dict(case, imports=[x for x in case["imports"] if x != e])
                r = _check_case(trial)
                if r and r[0] == v["kind"]:
                    case, changed = trial, True
        r = _check_case(case)
        v = dict(v, case=case, expected=r[1], observed=r[2])
        rs = case.get("rule")
        if rs and "layers" in rs:
            rs = rs["rule"]
        v["signature"] = f"{v['kind']}:k{case['level_limit']}:edges{len(case['imports'])}" + (f":{rs['verb']}/{rs['exc']}" if rs else "")
    elif case["part"] == "skeleton":
        v = dict(v)
        v["signature"] = f"{v['kind']}:skeleton:{case.get('form')}:{case['key'][2]}:k{case['key'][3]}"
    else:
        v = dict(v)
        v["signature"] = f"{v['kind']}:{case['key'][0]}:{case['key'][1]}:k{case['key'][2]}"
    return v


def replay(rec):
    r = _check_case(rec["case"])
    if r:
        return [{"kind": r[0], "case": rec["case"], "expected": r[1], "observed": r[2]}]
    return []
