"""C10 - external-library options affect only external modules, never internal ones (E3)."""

from __future__ import annotations

import itertools
import os
import re

from ..common import call, remove_scratch, scratch_dir, write_tree
from ..engine import Result
from ..refmodel import glob_matches
from ..scan import observed, scan
from ..scanmodel import ancestors, drop_ancestor_edges, is_internal_name, model_scan, source

ID = "C10"
RULE = (
    "fixed project layouts on tmpfs x module_path in {root, package, sub-package} x every set of "
    "up to k import statements from a pool mixing internal targets with externals whose names "
    "collide textually with internal ones (os, os.path, x.y.z, handlers, <root>x, <root>x.m, a "
    "sibling package whose name extends module_path's name, internal-looking names that are not "
    "modules) x {externals excluded, included} x glob and regex external-exclusion tuples (size "
    "0-2) drawn from exact / *suffix / prefix* / *infix* forms of every external and internal "
    "module name; every configuration is scanned with the real entry point and compared with the "
    "externals model and, differentially, with the default configuration. A case is one "
    "(layout, module_path, statements, options) scan; non-trivial = at least one external import "
    "and one pattern"
)
ASSUMPTIONS = [
    "external = any imported name that is not module_path's dotted name or below it on dotted-name boundaries",
    "externals model: imported external and all its ancestors appear with the import edge, unless it or an ancestor matches an exclusion pattern (glob: literal model; regex: re.match)",
    "internal modules and internal import edges must be identical in every configuration",
]

ROOT = "top"
LAYOUT = {
    "top/__init__.py": [],
    "top/proj/__init__.py": [],
    "top/proj/a.py": [],
    "top/proj/handlers.py": [],
    "top/proj/sub/__init__.py": [],
    "top/proj/sub/m.py": [],
    "top/proj/subx/__init__.py": [],
    "top/proj/subx/m.py": [],
}
IMPORTERS = ["top/proj/a.py", "top/proj/sub/m.py"]
MODULE_PATHS = ["top", "top/proj", "top/proj/sub"]

POOL = [
    ("import", "os"),
    ("import", "macos.os"),  # an external whose name ends like another external's name begins
    ("import", "os.path"),
    ("import", "x.y.z"),
    ("import", "x.y.w"),  # a second external below the same parent package
    ("import", "handlers"),
    ("import", "topx"),
    ("import", "topx.m"),
    ("import", "top.proj.handlers"),
    ("import", "top.proj.subx.m"),
    ("import", "top.proj.sub.m"),
    ("import", "top.proj.sub.nope"),
    ("from", "top.proj", ("handlers",)),
    ("from", "top.proj.sub", ("m", "name")),
    ("from", "os", ("path",)),
    ("rel", 1, "", ("name",)),
    ("rel", 1, "", ("handlers",)),
    ("rel", 2, "subx", ("m",)),
    ("rel", 2, "subx.m", ("name",)),
    # ancestor packages of module_path are modules of the architecture (C04) but lie outside module_path:
    # an import of one is an import of something external
    ("import", "top"),
    ("import", "top.proj"),
    ("from", "top", ("name",)),
    # (not generated: 'from .. import name' leaving module_path - whether that names the package or a module
    #  'name' inside it cannot be known for something that is not scanned, and nothing documents it)
]


def pattern_pool(names):
    pats = []
    for n in names:
        last = n.split(".")[-1]
        first = n.split(".")[0]
        pats += [n, "*" + last, first + "*", "*" + last[:2] + "*", n + ".*"]
    seen, out = set(), []
    for p in pats:
        if p not in seen:
            seen.add(p)
            out.append(p)
    return out


def glob_to_regex_model(p):
    """The documented meaning of a glob, written as a regex by the harness (not pytestarch's)."""
    lead, trail = p.startswith("*"), p.endswith("*")
    core = p[1 if lead else 0 : len(p) - 1 if trail and len(p) > 1 else len(p)]
    return (".*" if lead else "") + re.escape(core) + (".*" if trail else "$")


def plan(tier, seed):
    k = 2 if tier == "quick" else 3
    shards = []
    for mp in MODULE_PATHS:
        for importer in IMPORTERS:
            if not importer.startswith(mp + "/"):
                continue
            combos = [c for r in range(1, k + 1) for c in itertools.combinations(range(len(POOL)), r)]
            step = 4 if tier == "quick" else 6
            for lo in range(0, len(combos), step):
                shards.append({"mp": mp, "importer": importer, "k": k, "lo": lo, "hi": lo + step,
                               "pat_size": 2,
                               "bound": f"statements<={k} patterns<=2" + (" (two statements: patterns<=1)" if tier == "quick" else "")})
    return {"shards": shards, "require_nonzero": ["config:excluded", "config:included", "config:glob", "config:regex", "config:regex-raw", "config:flavour-mix",
                                                  "external-kept", "external-dropped"]}


def mp_ancestors(mp):
    return set(ancestors(mp.replace("/", ".")))


def external_imports(m, mp):
    """Imports of something outside module_path: of a real external, or of an ancestor package of module_path."""
    anc = mp_ancestors(mp)
    return list(m["external"]) + sorted((u, v) for (u, v) in m["must"] if v in anc)


def expected(files, mp, include, matcher):
    m = model_scan(files, (), ROOT, mp)
    mods = set(m["modules"])
    anc = mp_ancestors(mp)
    must = {(u, v) for (u, v) in m["must"] if v not in anc}
    may = {(u, v) for (u, v) in m["may"] if v not in anc}
    ext_mods, ext_edges = set(), set()
    dropped = kept = 0
    if include:
        for importer, t in external_imports(m, mp):
            if matcher and (matcher(t) or any(matcher(a) for a in ancestors(t))):
                dropped += 1
                continue
            kept += 1
            ext_mods.add(t)
            ext_mods.update(ancestors(t))
            ext_edges.add((importer, t))
    return mods, must, may, ext_mods, ext_edges, kept, dropped


def run_config(base, files, mp, opts, include, matcher, res, label):
    root = os.path.join(base, ROOT)
    out = call(lambda: observed(scan(root, os.path.join(base, mp), **opts)))
    res.transitions += 1
    res.evaluations += 1
    res.traces += 1
    res.states += 1
    if out[0] != "OK":
        return ("scan-raised", "an architecture", list(out[:2])), None
    mods, edges, _ = out[1]
    e_mods, must, may, x_mods, x_edges, kept, dropped = expected(files, mp, include, matcher)
    res.stats["external-kept"] += kept
    res.stats["external-dropped"] += dropped
    internal_mods = {m for m in mods if is_internal_name(m, ROOT, mp) or m in ancestors(mp.replace("/", "."))}
    internal_mods |= {m for m in mods if m in e_mods}
    got_ext_mods = mods - internal_mods
    # an import of an ancestor package of module_path leaves module_path: judged like an external import;
    # imports of the importer's other ancestors (inside module_path) are outside every claim
    to_mp_ancestor = {(u, v) for u, v in edges if v in mp_ancestors(mp)}
    # for the comparison between configurations every import among internal modules counts, also an import of
    # the importer's own package (which the model leaves open): whatever it is, it is the same in every configuration
    raw_internal = sorted([u, v] for u, v in edges - to_mp_ancestor if v in e_mods)
    edges = drop_ancestor_edges(edges - to_mp_ancestor)
    got_int_edges = {(u, v) for u, v in edges if v in e_mods}
    got_ext_edges = (edges - got_int_edges) | to_mp_ancestor
    obs = {"internal_modules": sorted(mods - got_ext_mods), "external_modules": sorted(got_ext_mods),
           "internal_edges": sorted(map(list, got_int_edges)), "external_edges": sorted(map(list, got_ext_edges)),
           "all_internal_edges": raw_internal}
    if (mods - got_ext_mods) != e_mods:
        return ("internal-modules-changed", sorted(e_mods), obs), obs
    if not (drop_ancestor_edges(must) <= got_int_edges <= drop_ancestor_edges(may)):
        return ("internal-imports-changed", sorted(map(list, drop_ancestor_edges(must))), obs), obs
    x_mods = x_mods - e_mods  # ancestors of module_path are present anyway
    if got_ext_mods != x_mods:
        return ("external-modules", sorted(x_mods), obs), obs
    if got_ext_edges != x_edges:
        return ("external-imports", sorted(map(list, x_edges)), obs), obs
    return None, obs


def configs(files, mp, pat_size):
    """(label, options, include, matcher)."""
    m = model_scan(files, (), ROOT, mp)
    ext = external_imports(m, mp)
    ext_names = sorted({t for _, t in ext} | {a for _, t in ext for a in ancestors(t)})
    int_names = sorted(n for n in m["modules"] if n.count(".") >= 1)[:4]
    pats = pattern_pool(ext_names + int_names)
    yield ("excluded", {}, False, None)
    yield ("excluded", {"exclude_external_libraries": True}, False, None)
    yield ("included", {"exclude_external_libraries": False}, True, None)
    for r in range(1, pat_size + 1):
        for combo in itertools.combinations(pats, r):
            yield ("glob", {"exclude_external_libraries": False, "external_exclusions": tuple(combo)}, True,
                   (lambda s, c=combo: any(glob_matches(p, s) for p in c)))
            rx = tuple(glob_to_regex_model(p) for p in combo)
            yield ("regex", {"exclude_external_libraries": False, "regex_external_exclusions": rx}, True,
                   (lambda s, c=rx: any(re.match(p, s) for p in c)))
    # the flavour of the *file* exclusions (glob / regex) is independent of the flavour of the external
    # exclusions: all four combinations, with file patterns that match nothing
    for p in pats[:3]:
        rxp = glob_to_regex_model(p)
        yield ("flavour-mix", {"exclude_external_libraries": False, "external_exclusions": (p,), "exclusions": (), "regex_exclusions": ("zz_nomatch",)}, True,
               (lambda s, q=p: glob_matches(q, s)))
        yield ("flavour-mix", {"exclude_external_libraries": False, "regex_external_exclusions": (rxp,), "exclusions": ("zz_nomatch",)}, True,
               (lambda s, q=rxp: re.match(q, s) is not None))
        yield ("flavour-mix", {"exclude_external_libraries": False, "regex_external_exclusions": (rxp,), "exclusions": (), "regex_exclusions": ("zz_nomatch",)}, True,
               (lambda s, q=rxp: re.match(q, s) is not None))
    # raw regexes that are not anchored at the end (a regex is matched from the start of the name, so an
    # escaped name also excludes every name it is a textual prefix of) and an explicit alternation
    raw = [re.escape(n) for n in ext_names[:4]] + [re.escape(n)[:-1] for n in ext_names[:2] if len(n) > 2]
    if len(ext_names) >= 2:
        raw.append("(" + re.escape(ext_names[0]) + "|" + re.escape(ext_names[-1]) + ")$")
    for p in dict.fromkeys(raw):
        yield ("regex-raw", {"exclude_external_libraries": False, "regex_external_exclusions": (p,)}, True,
               (lambda s, q=p: re.match(q, s) is not None))
    # every pattern of a tuple stands for itself: groups and back references are local to their pattern
    g1, g2 = r"(x)\.y.*", r"(\w+)(os)\.\2$"
    for pair in ((g1, g2), (g2, g1)):
        yield ("regex-raw", {"exclude_external_libraries": False, "regex_external_exclusions": pair}, True,
               (lambda s, c=pair: any(re.match(q, s) for q in c)))


def run_shard(shard, tier, seed):
    res = Result(shard["bound"])
    mp, importer = shard["mp"], shard["importer"]
    combos = [c for r in range(1, shard["k"] + 1) for c in itertools.combinations(range(len(POOL)), r)][shard["lo"] : shard["hi"]]
    base = scratch_dir(f"c10-{mp.replace('/', '_')}-{os.path.basename(importer)}-{shard['lo']}")
    try:
        for combo in combos:
            facts = [POOL[i] for i in combo]
            files = dict(LAYOUT)
            files[importer] = facts
            write_tree(base, {rel: source(fs) for rel, fs in files.items()})
            baseline = None
            # quick tier: pattern tuples of size 2 only together with single statements
            pat_size = 1 if (tier == "quick" and len(combo) > 1) else shard["pat_size"]
            for label, opts, include, matcher in configs(files, mp, pat_size):
                v, obs = run_config(base, files, mp, opts, include, matcher, res, label)
                res.stats[f"config:{label}"] += 1
                if include and matcher:
                    res.nontrivial += 1
                case = {"mp": mp, "importer": importer, "statements": [list(f) for f in facts],
                        "options": {k: list(x) if isinstance(x, tuple) else x for k, x in opts.items()}, "label": label}
                if v:
                    res.violation(v[0], case, v[1], v[2])
                    continue
                if baseline is None:
                    baseline = obs
                elif (obs["internal_modules"], obs["all_internal_edges"]) != (baseline["internal_modules"], baseline["all_internal_edges"]):
                    res.violation("internal-part-differs-from-default-configuration", case,
                                  {k: baseline[k] for k in ("internal_modules", "all_internal_edges")}, obs)
            if len(res.samples) < 1:
                res.sample({"module_path": mp, "importer": importer, "statements": [source([f]).strip() for f in facts],
                            "options": {"exclude_external_libraries": False, "external_exclusions": ["os*"]}})
    finally:
        remove_scratch(base)
    return res


def _check_case(case):
    facts = [tuple(tuple(x) if isinstance(x, list) else x for x in f) for f in case["statements"]]
    files = dict(LAYOUT)
    files[case["importer"]] = facts
    opts = {k: tuple(v) if isinstance(v, list) else v for k, v in case["options"].items()}
    include = opts.get("exclude_external_libraries") is False
    matcher = None
    if "external_exclusions" in opts:
        matcher = lambda s: any(glob_matches(p, s) for p in opts["external_exclusions"])  # noqa: E731
    if "regex_external_exclusions" in opts:
        matcher = lambda s: any(re.match(p, s) for p in opts["regex_external_exclusions"])  # noqa: E731
    base = scratch_dir("c10-replay")
    res = Result()
    try:
        write_tree(base, {rel: source(fs) for rel, fs in files.items()})
        v, obs = run_config(base, files, case["mp"], opts, include, matcher, res, case["label"])
        if v is None and obs is not None:
            v0, obs0 = run_config(base, files, case["mp"], {}, False, None, res, "excluded")
            if obs0 and (obs["internal_modules"], obs["all_internal_edges"]) != (obs0["internal_modules"], obs0["all_internal_edges"]):
                v = ("internal-part-differs-from-default-configuration", obs0, obs)
        return v
    finally:
        remove_scratch(base)


def minimise(v):
    v = dict(v)
    case = dict(v["case"])
    stmts = list(case["statements"])
    if len(stmts) > 1:
        for i in range(len(stmts)):
            trial = dict(case, statements=stmts[:i] + stmts[i + 1 :])
            r = _check_case(trial)
            if r and r[0] == v["kind"]:
                case = trial
                break
    pats = case["options"].get("external_exclusions") or case["options"].get("regex_external_exclusions") or []
    v["case"] = case
    v["signature"] = f"{v['kind']}:{case['mp']}:{case['label']}:{case['statements'][0][0]}"
    return v


def replay(rec):
    r = _check_case(rec["case"])
    if r:
        return [{"kind": r[0], "case": rec["case"], "expected": r[1], "observed": r[2]}]
    return []
