"""C11 - regex, partial-name and batched specifications equal their expansions (E1, differential)."""

from __future__ import annotations

import itertools
import re

from ..common import run_rule
from ..engine import Result
from ..impl import IMPORT_METHOD, build, mkrule, plan_graph_shards, shard_graphs
from ..refmodel import glob_matches, spec_to_json
from ..spaces import KINDS, NAMINGS, SHAPES, rename, subject_object_choices, trees

from pytestarch import Rule  # noqa: E402

ID = "C11"
RULE = (
    "every architecture of the stated bounds (under the identity and the adversarial naming) x "
    "(a) a regex family generated from the architecture's own module names (anchored name, "
    "unanchored prefix, suffix, character class, alternation, match-all, never-matching) on the "
    "subject side, the object side and both x 12 rule shapes, compared with are_named(all modules "
    "re.match accepts); (b) have_name_containing(glob) for the four glob shapes compared with "
    "are_named(all modules the literal glob model accepts); (c) batches of 2-3 subjects (resp. "
    "objects), related modules included, compared with the conjunction of the single rules; "
    "a case is one comparison; non-trivial = the match set / batch has at least two elements or the "
    "relation is non-empty"
)
ASSUMPTIONS = [
    "realizable architectures (leaf importers)",
    "regexes are generated from module names only (no look-around / negation, which the documentation declares unsupported)",
    "the expansion list is computed by the harness with re.match resp. the literal glob model, independently of pytestarch",
]


def plan(tier, seed):
    if tier == "quick":
        shards = plan_graph_shards("A", n_max=4, chunk=8)
        shards += plan_graph_shards("B", n_max=5, n_min=5, k=1, parts=2)
    else:
        shards = plan_graph_shards("A", n_max=5, chunk=16)
        shards += plan_graph_shards("B", n_max=6, n_min=6, k=2, parts=16)
    out = []
    for s in shards:
        for naming in ("identity", "adversarial", "dunder", "dotlike"):
            if naming in ("dunder", "dotlike") and s["space"] != "A":
                continue  # modules called __init__ / __main__ (as in every scanned package): the complete space only
            out.append(dict(s, naming=naming, bound=s["bound"] + f" naming={naming}"))
    # architectures whose packages exist only because the hierarchy implies them (module_path below root_path):
    # they are modules like any other and must be found by patterns
    for s in plan_graph_shards("A", n_max=4, chunk=8):
        out.append(dict(s, naming="identity", implicit=True, bound=s["bound"] + " ancestors implicit"))
    return {"shards": out, "require_nonzero": ["regex:PASS", "regex:FAIL", "regex:nomatch", "glob:PASS", "glob:FAIL", "glob:nomatch", "batch-subj", "batch-obj", "batch-tuple"]}


def regex_family(ns):
    """(regex, description) generated from the architecture's names; deterministic order."""
    fam = []
    non_root = [n for n in ns if n != ns[0]]
    for n in non_root:
        fam.append("^" + re.escape(n) + "$")
        fam.append(re.escape(n))
        # the bare module name used as a pattern: its dots are wildcards and it is matched as a prefix, so it
        # stands for the module, its sub modules and every sibling whose name extends it
        fam.append(n)
        last = n.split(".")[-1]
        fam.append(".*" + re.escape(last) + "$")
        fam.append(".*\\." + re.escape(last) + "$")
    parents = {n.rsplit(".", 1)[0] for n in non_root}
    for p in sorted(parents):
        kids = [n for n in non_root if n.rsplit(".", 1)[0] == p]
        firsts = sorted({k.split(".")[-1][0] for k in kids})
        fam.append("^" + re.escape(p) + "\\.[" + "".join(firsts) + "]$")
        fam.append(re.escape(p) + "\\.[^.]+$")
        for a, b in itertools.combinations(kids, 2):
            fam.append("^(" + re.escape(a) + "|" + re.escape(b) + ")$")
            fam.append(re.escape(a) + "|" + re.escape(b))
            fam.append(re.escape(b) + "$|" + re.escape(a) + "$")
    # the same name in another letter case is another name: matches nothing
    for n in non_root[:2]:
        if n.upper() != n:
            fam.append("^" + re.escape(n.upper()) + "$")
    fam.append(".*")
    fam.append("^zzz$")
    seen, out = set(), []
    for f in fam:
        if f not in seen:
            seen.add(f)
            out.append(f)
    return out


def glob_family(ns):
    fam = []
    for n in ns[1:]:
        last = n.split(".")[-1]
        fam += [n, "*" + last, "*." + last, n + "*", n.rsplit(".", 1)[0] + ".*", "*" + last + "*", "*." + last + ".*"]
    fam += ["*", "zzz", "*zzz", "zzz*"] + [n.upper() for n in ns[1:2] if n.upper() != n]
    seen, out = set(), []
    for f in fam:
        if f not in seen:
            seen.add(f)
            out.append(f)
    return out


def mk(verb, imp, exc, subj_kind, subj, obj_kind, obj):
    """kinds: 'named' (list) | 'regex' (str) | 'glob' (str) | 'sub'."""
    def apply(r, kind, val):
        if kind == "named":
            return r.are_named(list(val))
        if kind == "sub":
            return r.are_sub_modules_of(list(val))
        if kind == "regex":
            return r.have_name_matching(val)
        return r.have_name_containing(list(val) if isinstance(val, (list, tuple)) else val)

    r = apply(Rule().modules_that(), subj_kind, subj)
    r = getattr(r, verb)()
    r = getattr(r, IMPORT_METHOD[(imp, exc)])()
    return apply(r, obj_kind, obj)


def oc(g):
    return g[0] if g[0] != "ERR" else "ERR:" + g[1].split(":")[0]


def decoy_for(ns, I, seed):
    """Another architecture with a different module set (last leaf missing): the same pattern is
    resolved against it first, so a pattern -> modules table kept anywhere but in the evaluation at
    hand would be stale for the architecture under test."""
    last = [n for n in ns if not any(m.startswith(n + ".") for m in ns)][-1]
    keep = [n for n in ns if n != last]
    if len(keep) < 2:
        return None
    return build(keep, [(u, v) for u, v in I if u in keep and v in keep], seed)


def check_graph(ns, I, seed, res, only=None, implicit=False):
    ev = build(ns, I, seed, implicit=implicit)
    decoy = decoy_for(ns, I, seed)
    viol = []
    non_root = ns[1:]
    fixed_named = [(x,) for x in non_root[:3]]

    def note(stat, nontrivial=True):
        if res is not None:
            res.traces += 1
            res.transitions += 2
            res.evaluations += 1
            res.stats[stat] += 1
            if nontrivial:
                res.nontrivial += 1

    # (a) regexes and (b) globs
    for fam_kind, fam in (("regex", regex_family(ns)), ("glob", glob_family(ns))):
        for pat in fam:
            if fam_kind == "regex":
                matches = sorted(n for n in ns if re.match(pat, n))
            else:
                matches = sorted(n for n in ns if glob_matches(pat, n))
            for other in fixed_named:
                for side in ("subj", "obj"):
                    for verb, imp, exc in SHAPES:
                        if only and only != (fam_kind, pat, other, side, verb, imp, exc):
                            continue
                        if side == "subj":
                            a = mk(verb, imp, exc, fam_kind, pat, "named", other)
                            a0 = mk(verb, imp, exc, fam_kind, pat, "named", other)
                        else:
                            a = mk(verb, imp, exc, "named", other, fam_kind, pat)
                            a0 = mk(verb, imp, exc, "named", other, fam_kind, pat)
                        if decoy is not None:
                            run_rule(a0, decoy)  # same pattern, other architecture, other rule object
                            run_rule(a, decoy)  # ... and the rule object under test itself is re-used
                            if res is not None:
                                res.transitions += 1
                                res.stats["pattern-first-resolved-on-other-architecture"] += 1
                        ga = oc(run_rule(a, ev))
                        if not matches:
                            note(f"{fam_kind}:nomatch")
                            if ga in ("PASS", "FAIL"):
                                viol.append((f"{fam_kind}-without-match-gives-verdict", (fam_kind, pat, other, side, verb, imp, exc), "a no-match error", ga))
                            continue
                        if side == "subj":
                            b = mk(verb, imp, exc, "named", matches, "named", other)
                        else:
                            b = mk(verb, imp, exc, "named", other, "named", matches)
                        gb = oc(run_rule(b, ev))
                        note(f"{fam_kind}:{gb}" if gb in ("PASS", "FAIL") else f"{fam_kind}:ERR", len(matches) > 1 or bool(I))
                        if ga != gb:
                            viol.append((f"{fam_kind}-differs-from-expansion", (fam_kind, pat, other, side, verb, imp, exc), {"expansion": matches, "outcome": gb}, ga))
        # both sides regex (regex only)
        if fam_kind == "regex":
            anchored = [p for p in fam if p.startswith("^") and p != "^zzz$" and any(re.match(p, n) for n in ns)][:4]
            for p1, p2 in itertools.permutations(anchored, 2):
                m1 = sorted(n for n in ns if re.match(p1, n))
                m2 = sorted(n for n in ns if re.match(p2, n))
                for verb, imp, exc in SHAPES:
                    if only and only != ("regex2", p1, p2, "both", verb, imp, exc):
                        continue
                    ga = oc(run_rule(mk(verb, imp, exc, "regex", p1, "regex", p2), ev))
                    gb = oc(run_rule(mk(verb, imp, exc, "named", m1, "named", m2), ev))
                    note("regex:both")
                    if ga != gb:
                        viol.append(("regex-differs-from-expansion", ("regex2", p1, p2, "both", verb, imp, exc), {"expansion": [m1, m2], "outcome": gb}, ga))
    # (b2) batches of partial names: equal to the union of the single expansions; one name of the
    # batch matching nothing is a no-match error, never a verdict
    globs = glob_family(ns)
    matching = [g for g in globs if any(glob_matches(g, n) for n in ns) and g != "*"][:4]
    for g1 in matching:
        for g2 in matching[1:3] + ["zzz", "*zzz*"]:
            if g1 == g2:
                continue
            m1 = {n for n in ns if glob_matches(g1, n)}
            m2 = {n for n in ns if glob_matches(g2, n)}
            for other in fixed_named[:2]:
                for side in ("subj", "obj"):
                    for verb, imp, exc in SHAPES:
                        key = ("glob-batch", (g1, g2), other, side, verb, imp, exc)
                        if only and only != key:
                            continue
                        if side == "subj":
                            a = mk(verb, imp, exc, "glob", [g1, g2], "named", other)
                        else:
                            a = mk(verb, imp, exc, "named", other, "glob", [g1, g2])
                        ga = oc(run_rule(a, ev))
                        if not m2:
                            note("glob:nomatch")
                            if ga in ("PASS", "FAIL"):
                                viol.append(("glob-without-match-gives-verdict", key, "a no-match error", ga))
                            continue
                        union = sorted(m1 | m2)
                        if side == "subj":
                            b = mk(verb, imp, exc, "named", union, "named", other)
                        else:
                            b = mk(verb, imp, exc, "named", other, "named", union)
                        gb = oc(run_rule(b, ev))
                        note("glob:batch")
                        if ga != gb:
                            viol.append(("glob-differs-from-expansion", key, {"expansion": union, "outcome": gb}, ga))
    # (c0) a batch may be given as any sequence: tuple == list
    for xs in itertools.combinations(non_root, 2):
        for o in [n for n in non_root if n not in xs][:1]:
            for kind in KINDS:
                for verb, imp, exc in SHAPES:
                    key = ("batch-tuple", xs, o, kind, verb, imp, exc)
                    if only and only != key:
                        continue

                    def _mk(seq_s, seq_o):
                        r = Rule().modules_that()
                        r = (r.are_named if kind == "named" else r.are_sub_modules_of)(seq_s)
                        r = getattr(getattr(r, verb)(), IMPORT_METHOD[(imp, exc)])()
                        return (r.are_named if kind == "named" else r.are_sub_modules_of)(seq_o)

                    as_list = oc(run_rule(_mk(list(xs), [o]), ev))
                    as_tuple = oc(run_rule(_mk(tuple(xs), (o,)), ev))
                    note("batch-tuple")
                    if as_list != as_tuple:
                        viol.append(("batch-given-as-tuple-differs-from-list", key, as_list, as_tuple))
    # (c) batches incl. related modules
    for k in (2, 3):
        for xs in itertools.combinations(non_root, k):
            others = [n for n in non_root if n not in xs][:2]
            for o in others:
                for sk in KINDS:
                    for ok in KINDS:
                        for verb, imp, exc in SHAPES:
                            key = ("batch-subj", xs, o, sk + "/" + ok, verb, imp, exc)
                            if only and only != key:
                                continue
                            whole = oc(run_rule(mk(verb, imp, exc, sk, xs, ok, [o]), ev))
                            parts = [oc(run_rule(mk(verb, imp, exc, sk, [x], ok, [o]), ev)) for x in xs]
                            note("batch-subj")
                            exp = _conj(parts)
                            if exp is not None and whole != exp:
                                viol.append(("multi-subject-rule-differs-from-conjunction", key, {"single": parts}, whole))
                        if sk == ok:
                            # a subject that is also listed among the objects ([a, b] ... except [a, o])
                            for verb, imp, exc in SHAPES:
                                key = ("batch-subj-overlap", xs, o, sk + "/" + ok, verb, imp, exc)
                                if only and only != key:
                                    continue
                                objs = [xs[0], o]
                                whole = oc(run_rule(mk(verb, imp, exc, sk, xs, ok, objs), ev))
                                parts = [oc(run_rule(mk(verb, imp, exc, sk, [x], ok, objs), ev)) for x in xs]
                                note("batch-subj")
                                exp = _conj(parts)
                                if exp is not None and whole != exp:
                                    viol.append(("multi-subject-rule-differs-from-conjunction", key, {"single": parts}, whole))
                        for verb in ("should", "should_not"):
                            for imp in (True, False):
                                key = ("batch-obj", xs, o, sk + "/" + ok, verb, imp, False)
                                if only and only != key:
                                    continue
                                whole = oc(run_rule(mk(verb, imp, False, sk, [o], ok, xs), ev))
                                parts = [oc(run_rule(mk(verb, imp, False, sk, [o], ok, [x]), ev)) for x in xs]
                                note("batch-obj")
                                exp = _conj(parts)
                                if exp is not None and whole != exp:
                                    viol.append(("multi-object-rule-differs-from-conjunction", key, {"single": parts}, whole))
    return viol


def _conj(parts):
    if any(p.startswith("ERR") for p in parts):
        return None
    return "PASS" if all(p == "PASS" for p in parts) else "FAIL"


# a sibling of a package whose name equals a sub module's dotted name with another character at the dot
# (r.a_a next to r.a.a): the bare name r.a.a used as a regex matches both, its escaped form only one
NAMING_DOTLIKE = {"r": "r", "a": "a", "b": "a_a", "c": "aXa", "d": "d", "e": "e", "p": "p", "q": "q"}


def _renamed(ns, I, naming):
    m = NAMING_DOTLIKE if naming == "dotlike" else NAMINGS[naming]
    if not m:
        return list(ns), list(I)
    return [rename(n, m) for n in ns], [(rename(a, m), rename(b, m)) for a, b in I]


def run_shard(shard, tier, seed):
    res = Result(shard["bound"])
    for ns, I in shard_graphs(shard, seed):
        ns, I = _renamed(ns, I, shard["naming"])
        res.states += 1
        for kind, key, exp, got in check_graph(ns, I, seed, res, implicit=shard.get("implicit", False)):
            res.violation(kind, {"modules": ns, "imports": I, "key": _j(key), "seed": seed, "implicit": shard.get("implicit", False)}, exp, got)
        if res.states == 1:
            res.sample({"modules": ns, "imports": I, "regexes": regex_family(ns)[:6], "globs": glob_family(ns)[:6]})
    return res


def _j(key):
    return [list(x) if isinstance(x, tuple) else x for x in key]


def _t(key):
    return tuple(tuple(x) if isinstance(x, list) else x for x in key)


def _check_case(case):
    ns, I = case["modules"], [tuple(e) for e in case["imports"]]
    v = check_graph(ns, I, case.get("seed", 0), None, only=_t(case["key"]), implicit=case.get("implicit", False))
    if v:
        return (v[0][0], v[0][2], v[0][3])
    return None


def minimise(v):
    case = dict(v["case"])
    changed = True
    while changed:
        changed = False
        for e in list(case["imports"]):
            trial = dict(case, imports=[x for x in case["imports"] if x != e])
            r = _check_case(trial)
            if r and r[0] == v["kind"]:
                case, changed = trial, True
    r = _check_case(case)
    v = dict(v, case=case, expected=r[1], observed=r[2])
    k = case["key"]
    v["signature"] = f"{v['kind']}:{k[0]}:{k[4]}/{k[6]}:{'import' if k[5] else 'imported'}:edges{len(case['imports'])}"
    return v


def replay(rec):
    r = _check_case(rec["case"])
    if r:
        return [{"kind": r[0], "case": rec["case"], "expected": r[1], "observed": r[2]}]
    return []
