"""C12 - rule algebra: duality, negation, decomposition, alias, monotonicity (E1, oracle-free).

Every law relates two or three outcomes of the *implementation* on the same (or a one-edge
larger) architecture; no reference model is involved."""

from __future__ import annotations

from ..common import run_rule
from ..engine import Result
from ..impl import build, mkrule, plan_graph_shards, shard_graphs
from ..refmodel import spec_to_json
from ..spaces import admissible_pairs, related, subject_object_choices, trees, KINDS, renamed_graph

ID = "C12"
RULE = (
    "every architecture of the stated bounds x every choice of 1-2 subjects and 1-2 objects "
    "(ancestor/descendant pairs included) x named/sub-modules-of on both sides; per choice the "
    "laws duality, negation, decomposition, alias and (per addable import edge between unrelated "
    "modules) monotonicity are evaluated on the real implementation; a case is one law instance; "
    "non-trivial = the compared outcomes are not all the same trivial verdict on an empty relation"
)
ASSUMPTIONS = [
    "realizable architectures (leaf importers)",
    "negation and the alias law are stated for one subject / one object only, as in the property text",
    "a law instance in which both sides raise the same non-assertion error is not a violation",
    "monotonicity adds edges between modules that are not ancestor/descendant of each other",
]


def plan(tier, seed):
    if tier == "quick":
        shards = plan_graph_shards("A", n_max=4, chunk=8)
        shards += plan_graph_shards("B", n_max=5, n_min=5, k=2, parts=4)
    else:
        shards = plan_graph_shards("A", n_max=5, chunk=16)
        shards += plan_graph_shards("B", n_max=6, n_min=6, k=2, parts=16)
        shards += plan_graph_shards("B", k=2, parts=8, with_ext=True, tree_list=list(trees(5)))
    # the complete small space once more under the naming that makes siblings string prefixes of each other
    shards += [dict(s, naming="adversarial", bound=s["bound"] + " naming=adversarial")
               for s in plan_graph_shards("A", n_max=4, chunk=8 if tier == "quick" else 4)]
    return {
        "shards": shards,
        "require_nonzero": ["duality", "negation", "decomposition", "alias", "monotonic", "negation:PASS/FAIL", "negation:FAIL/PASS"],
    }


def out(spec, ev, seed, cache):
    key = (spec["verb"], spec["imp"], spec["exc"], spec["sk"], tuple(spec["subj"]), spec.get("ok"),
           tuple(spec["obj"]) if spec.get("obj") else None, bool(spec.get("anything")))
    if key not in cache:
        g = run_rule(mkrule(spec, seed), ev)
        cache[key] = g[0] if g[0] != "ERR" else "ERR:" + g[1].split(":")[0]
    return cache[key]


def sp(verb, imp, exc, sk, subj, ok, obj, anything=False):
    d = dict(verb=verb, imp=imp, exc=exc, sk=sk, subj=tuple(subj), ok=ok, obj=tuple(obj) if obj else None)
    if anything:
        d["anything"] = True
    return d


def laws_for(subj, obj, sk, ok):
    """Yield (law name, [specs], predicate over outcomes)."""
    both = lambda a, b: "PASS" if (a == "PASS" and b == "PASS") else "FAIL"  # noqa: E731
    for verb in ("should", "should_not"):
        yield ("duality", [sp(verb, True, False, sk, subj, ok, obj), sp(verb, False, False, ok, obj, sk, subj)],
               lambda o: o[0] == o[1])
    for imp in (True, False):
        if len(subj) == 1 and len(obj) == 1:
            for exc in (False, True):
                yield ("negation", [sp("should", imp, exc, sk, subj, ok, obj), sp("should_not", imp, exc, sk, subj, ok, obj)],
                       lambda o: {o[0], o[1]} == {"PASS", "FAIL"} or (o[0] == o[1] and o[0].startswith("ERR")))
        yield ("decomposition", [sp("should_only", imp, False, sk, subj, ok, obj), sp("should", imp, False, sk, subj, ok, obj),
                                 sp("should_not", imp, True, sk, subj, ok, obj)],
               lambda o: o[0] == both(o[1], o[2]) or (o[0].startswith("ERR") and o[0] in (o[1], o[2])))
        yield ("decomposition", [sp("should_only", imp, True, sk, subj, ok, obj), sp("should", imp, True, sk, subj, ok, obj),
                                 sp("should_not", imp, False, sk, subj, ok, obj)],
               lambda o: o[0] == both(o[1], o[2]) or (o[0].startswith("ERR") and o[0] in (o[1], o[2])))


MONO = [("should", False), ("should", True), ("should_not", False), ("should_not", True)]


def check_graph(ns, I, seed, res, mono_pairs):
    ev = build(ns, I, seed)
    cache = {}
    viol = []
    cand = [x for x in ns if x != ns[0]]
    so = subject_object_choices(ns, 2, 2, False, (ns[0],))
    for subj, obj in so:
        for sk in KINDS:
            for ok in KINDS:
                for name, specs, pred in laws_for(subj, obj, sk, ok):
                    o = [out(s, ev, seed, cache) for s in specs]
                    if res is not None:
                        res.traces += 1
                        res.stats[name] += 1
                        if name == "negation":
                            res.stats[f"negation:{o[0]}/{o[1]}"] += 1
                        if I:
                            res.nontrivial += 1
                    if not pred(o):
                        viol.append((name, [spec_to_json(s) for s in specs], o, None))
    for s in cand:
        for sk in KINDS:
            for imp in (True, False):
                specs = [sp("should_not", imp, False, sk, (s,), None, None, True), sp("should_not", imp, True, sk, (s,), sk, (s,))]
                o = [out(x, ev, seed, cache) for x in specs]
                if res is not None:
                    res.traces += 1
                    res.stats["alias"] += 1
                if o[0] != o[1]:
                    viol.append(("alias", [spec_to_json(x) for x in specs], o, None))
    # monotonicity: G -> G + e
    Iset = set(I)
    for e in mono_pairs:
        if e in Iset or related(e[0], e[1]):
            continue
        ev2 = build(ns, list(I) + [e], seed)
        cache2 = {}
        for subj, obj in so:
            for sk in KINDS:
                for ok in KINDS:
                    for verb, exc in MONO:
                        for imp in (True, False):
                            s = sp(verb, imp, exc, sk, subj, ok, obj)
                            a, b = out(s, ev, seed, cache), out(s, ev2, seed, cache2)
                            if res is not None:
                                res.traces += 1
                                res.stats["monotonic"] += 1
                                res.nontrivial += 1
                            bad = (a, b) == (("PASS", "FAIL") if verb == "should" else ("FAIL", "PASS"))
                            if bad:
                                viol.append(("monotonic", [spec_to_json(s)], [a, b], list(e)))
        if res is not None:
            res.transitions += len(cache2)
            res.evaluations += len(cache2)
    if res is not None:
        res.transitions += len(cache)
        res.evaluations += len(cache)
    return viol


def run_shard(shard, tier, seed):
    res = Result(shard["bound"])
    for ns, I in shard_graphs(shard, seed):
        ns, I = renamed_graph(ns, I, shard.get("naming", "identity"))
        res.states += 1
        ext = [n for n in ns if n.split(".")[0] != ns[0]]
        pairs = admissible_pairs(ns, root_importee=False, externals=ext)
        for name, specs, o, e in check_graph(ns, I, seed, res, pairs):
            res.violation(name, {"modules": ns, "imports": I, "law": name, "rules": specs, "added_edge": e, "seed": seed},
                          "law holds", o)
        if res.states == 1 and I:
            res.sample({"modules": ns, "imports": I, "laws": "duality/negation/decomposition/alias/monotonic over all subject-object choices"})
    return res


def _check_case(case):
    ns, I = case["modules"], [tuple(e) for e in case["imports"]]
    pairs = [tuple(case["added_edge"])] if case.get("added_edge") else []
    want = [tuple(r["subj"]) for r in case["rules"]]
    for name, specs, o, e in check_graph(ns, I, case.get("seed", 0), None, pairs):
        if name == case["law"] and specs == case["rules"]:
            return (name, "law holds", o)
    return None


def minimise(v):
    case = dict(v["case"])
    changed = True
    while changed:
        changed = False
        for e in list(case["imports"]):
            trial = dict(case, imports=[x for x in case["imports"] if x != e])
            if _check_case(trial):
                case, changed = trial, True
    r = _check_case(case)
    v = dict(v, case=case, observed=r[2])
    rs = case["rules"][0]
    v["signature"] = f"{case['law']}:{rs['verb']}/{rs['exc']}:{'import' if rs['imp'] else 'imported'}:{rs['sk']}/{rs.get('ok')}:edges{len(case['imports'])}"
    return v


def replay(rec):
    r = _check_case(rec["case"])
    if r:
        return [{"kind": r[0], "case": rec["case"], "expected": r[1], "observed": r[2]}]
    return []
