"""C12 - rule algebra: duality, negation, decomposition, alias, monotonicity (E1, oracle-free).

Every law relates two or three outcomes of the *implementation* on the same (or a one-edge
larger) architecture; no reference model is involved."""

from __future__ import annotations

from ..common import run_rule
from ..engine import Result
from ..impl import build, mkrule, plan_graph_shards, shard_graphs
from ..refmodel import spec_to_json
from ..spaces import admissible_pairs, related, subject_object_choices, trees, KINDS, renamed_graph

ID = "C12"
RULE = (
    "every architecture of the stated bounds x every choice of 1-2 subjects and 1-2 objects "
    "(ancestor/descendant pairs included) x named/sub-modules-of on both sides; per choice the "
    "laws duality, negation, decomposition, alias and (per addable import edge between unrelated "
    "modules) monotonicity are evaluated on the real implementation; a case is one law instance; "
    "non-trivial = the compared outcomes are not all the same trivial verdict on an empty relation"
)
ASSUMPTIONS = [
    "realizable architectures (leaf importers)",
    "negation and the alias law are stated for one subject / one object only, as in the property text",
    "a law instance in which both sides raise the same non-assertion error is not a violation",
    "monotonicity adds edges between modules that are not ancestor/descendant of each other",
]


def plan(tier, seed):
    if tier == "quick":
        shards = plan_graph_shards("A", n_max=4, chunk=8)
        shards += plan_graph_shards("B", n_max=5, n_min=5, k=2, parts=4)
    else:
        shards = plan_graph_shards("A", n_max=5, chunk=16)
        shards += plan_graph_shards("B", n_max=6, n_min=6, k=2, parts=16)
        shards += plan_graph_shards("B", k=2, parts=8, with_ext=True, tree_list=list(trees(5)))
    # the complete small space once more under the naming that makes siblings string prefixes of each other
    shards += [dict(s, naming="adversarial", bound=s["bound"] + " naming=adversarial")
               for s in plan_graph_shards("A", n_max=4, chunk=8 if tier == "quick" else 4)]
    from .c02 import pair_cases

    for lo in range(0, len(pair_cases()), 120):
        shards.append({"part": "scan", "lo": lo, "hi": lo + 120, "bound": "scan-level monotonicity (second import statement added to a file)"})
    return {
        "shards": shards,
        "require_nonzero": ["scan-monotonic", "duality", "negation", "decomposition", "alias", "monotonic", "negation:PASS/FAIL", "negation:FAIL/PASS", "regex-law", "negation-law-with-regex-matching-nothing"],
    }


def out(spec, ev, seed, cache):
    key = (spec["verb"], spec["imp"], spec["exc"], spec["sk"], tuple(spec["subj"]), spec.get("ok"),
           tuple(spec["obj"]) if spec.get("obj") else None, bool(spec.get("anything")))
    if key not in cache:
        g = run_rule(mkrule(spec, seed), ev)
        cache[key] = g[0] if g[0] != "ERR" else "ERR:" + g[1].split(":")[0]
    return cache[key]


def sp(verb, imp, exc, sk, subj, ok, obj, anything=False):
    d = dict(verb=verb, imp=imp, exc=exc, sk=sk, subj=tuple(subj), ok=ok, obj=tuple(obj) if obj else None)
    if anything:
        d["anything"] = True
    return d


def laws_for(subj, obj, sk, ok):
    """Yield (law name, [specs], predicate over outcomes)."""
    both = lambda a, b: "PASS" if (a == "PASS" and b == "PASS") else "FAIL"  # noqa: E731
    for verb in ("should", "should_not"):
        yield ("duality", [sp(verb, True, False, sk, subj, ok, obj), sp(verb, False, False, ok, obj, sk, subj)],
               lambda o: o[0] == o[1])
    for imp in (True, False):
        if len(subj) == 1 and len(obj) == 1:
            for exc in (False, True):
                yield ("negation", [sp("should", imp, exc, sk, subj, ok, obj), sp("should_not", imp, exc, sk, subj, ok, obj)],
                       lambda o: {o[0], o[1]} == {"PASS", "FAIL"} or (o[0] == o[1] and o[0].startswith("ERR")))
        yield ("decomposition", [sp("should_only", imp, False, sk, subj, ok, obj), sp("should", imp, False, sk, subj, ok, obj),
                                 sp("should_not", imp, True, sk, subj, ok, obj)],
               lambda o: o[0] == both(o[1], o[2]) or (o[0].startswith("ERR") and o[0] in (o[1], o[2])))
        yield ("decomposition", [sp("should_only", imp, True, sk, subj, ok, obj), sp("should", imp, True, sk, subj, ok, obj),
                                 sp("should_not", imp, False, sk, subj, ok, obj)],
               lambda o: o[0] == both(o[1], o[2]) or (o[0].startswith("ERR") and o[0] in (o[1], o[2])))


MONO = [("should", False), ("should", True), ("should_not", False), ("should_not", True)]


def check_graph(ns, I, seed, res, mono_pairs):
    ev = build(ns, I, seed)
    cache = {}
    viol = []
    cand = [x for x in ns if x != ns[0]]
    so = subject_object_choices(ns, 2, 2, False, (ns[0],))
    # the root module itself as the single subject or object (edge of the domain)
    so += [x for x in subject_object_choices(ns, 1, 1, False, ()) if ns[0] in x[0] or ns[0] in x[1]]
    for subj, obj in so:
        for sk in KINDS:
            for ok in KINDS:
                for name, specs, pred in laws_for(subj, obj, sk, ok):
                    o = [out(s, ev, seed, cache) for s in specs]
                    if res is not None:
                        res.traces += 1
                        res.stats[name] += 1
                        if name == "negation":
                            res.stats[f"negation:{o[0]}/{o[1]}"] += 1
                        if I:
                            res.nontrivial += 1
                    if not pred(o):
                        viol.append((name, [spec_to_json(s) for s in specs], o, None))
    # the same laws with one side given by a regex (which may also match the other side)
    import re as _re

    last_leaf = [n for n in ns if not any(m.startswith(n + ".") for m in ns)][-1]
    keep = [n for n in ns if n != last_leaf]
    decoy = build(keep, [(u, v) for u, v in I if u in keep and v in keep], seed) if len(keep) >= 2 else None
    rx = [".*", _re.escape(ns[0]) + r"\..*", "zz_nomatch.*"]
    for a in cand:
        rx += ["^" + _re.escape(a) + "$", _re.escape(a)]
    for a in cand:
        for R in dict.fromkeys(rx):
            matches = [n for n in ns if _re.match(R, n)]
            neg = lambda o: {o[0], o[1]} == {"PASS", "FAIL"} or (o[0] == o[1] and o[0].startswith("ERR"))  # noqa: E731
            for sk in KINDS:
                laws = [("duality", [sp(verb, True, False, sk, (a,), "regex", (R,)), sp(verb, False, False, "regex", (R,), sk, (a,))],
                         lambda o: o[0] == o[1]) for verb in ("should", "should_not")]
                if len(matches) <= 1:
                    # one match: one subject and one object; no match: neither rule has a verdict, so 'should'
                    # cannot pass while 'should not' does not fail (regex on the object and on the subject side)
                    for imp in (True, False):
                        for exc in ((False,) if matches else (False, True)):
                            laws.append(("negation", [sp("should", imp, exc, sk, (a,), "regex", (R,)), sp("should_not", imp, exc, sk, (a,), "regex", (R,))], neg))
                            if not matches:
                                laws.append(("negation", [sp("should", imp, exc, "regex", (R,), sk, (a,)), sp("should_not", imp, exc, "regex", (R,), sk, (a,))], neg))
                                if res is not None:
                                    res.stats["negation-law-with-regex-matching-nothing"] += 2
                for name, specs, pred in laws:
                    o = [out(x, ev, seed, cache) for x in specs]
                    if decoy is not None and name == "duality":
                        # the same law on rule objects that were applied to another architecture (other
                        # module set, hence other matches of the regex) before
                        o2 = []
                        for x in specs:
                            r = mkrule(x, seed)
                            run_rule(r, decoy)
                            g = run_rule(r, ev)
                            o2.append(g[0] if g[0] != "ERR" else "ERR:" + g[1].split(":")[0])
                        if res is not None:
                            res.transitions += 4
                            res.stats["regex-law-reused-rule-object"] += 1
                        if o2 != o:
                            viol.append((name, [spec_to_json(x) for x in specs], {"fresh": o, "re-used": o2}, None))
                            continue
                    if res is not None:
                        res.traces += 1
                        res.stats[name] += 1
                        res.stats["regex-law"] += 1
                        if I:
                            res.nontrivial += 1
                    if not pred(o):
                        viol.append((name, [spec_to_json(x) for x in specs], o, None))
    for s in cand:
        for sk in KINDS:
            for imp in (True, False):
                specs = [sp("should_not", imp, False, sk, (s,), None, None, True), sp("should_not", imp, True, sk, (s,), sk, (s,))]
                o = [out(x, ev, seed, cache) for x in specs]
                if res is not None:
                    res.traces += 1
                    res.stats["alias"] += 1
                if o[0] != o[1]:
                    viol.append(("alias", [spec_to_json(x) for x in specs], o, None))
    # monotonicity: G -> G + e
    Iset = set(I)
    for e in mono_pairs:
        if e in Iset or related(e[0], e[1]):
            continue
        ev2 = build(ns, list(I) + [e], seed)
        cache2 = {}
        for subj, obj in so:
            for sk in KINDS:
                for ok in KINDS:
                    for verb, exc in MONO:
                        for imp in (True, False):
                            s = sp(verb, imp, exc, sk, subj, ok, obj)
                            a, b = out(s, ev, seed, cache), out(s, ev2, seed, cache2)
                            if res is not None:
                                res.traces += 1
                                res.stats["monotonic"] += 1
                                res.nontrivial += 1
                            bad = (a, b) == (("PASS", "FAIL") if verb == "should" else ("FAIL", "PASS"))
                            if bad:
                                viol.append(("monotonic", [spec_to_json(s)], [a, b], list(e)))
        if res is not None:
            res.transitions += len(cache2)
            res.evaluations += len(cache2)
    if res is not None:
        res.transitions += len(cache)
        res.evaluations += len(cache)
    return viol


def scan_monotonic(shard, res, only=None):
    """Monotonicity at the level of source files: adding a second import statement to a file never
    removes an import the first statement produced, hence never turns the passing 'should import'
    rule into a failing one nor the failing 'should not import' rule into a passing one."""
    import os

    from pytestarch import Rule

    from ..common import import_edges, remove_scratch, scratch_dir, write_tree
    from ..scan import scan
    from .c02 import SKELETON, pair_cases

    base = scratch_dir(f"c12-scan-{shard.get('lo', 0)}")
    viol = []
    try:
        write_tree(base, SKELETON)
        root = os.path.join(base, "top")
        for rel, imod, fid, src, must in pair_cases()[shard.get("lo", 0) : shard.get("hi")]:
            key = [rel, fid, src]
            if only is not None and only != key:
                continue
            first = src.split("\n")[0]
            t1 = first.split()[1]
            path = os.path.join(base, rel)
            try:
                with open(path, "w") as f:
                    f.write(first + "\n")
                ev1 = scan(root, root)
                with open(path, "w") as f:
                    f.write(src + "\n")
                ev2 = scan(root, root)
            finally:
                with open(path, "w") as f:
                    f.write("")
            e1, e2 = import_edges(ev1), import_edges(ev2)
            res.states += 1
            res.transitions += 2
            res.traces += 1
            res.nontrivial += 1
            res.stats["monotonic"] += 1
            res.stats["scan-monotonic"] += 1
            if not e1 <= e2:
                viol.append(("monotonic", {"part": "scan", "key": key}, sorted(map(list, e1)), sorted(map(list, e2))))
                continue
            for verb, bad in (("should", ("PASS", "FAIL")), ("should_not", ("FAIL", "PASS"))):
                outs = []
                for ev in (ev1, ev2):
                    r = getattr(Rule().modules_that().are_named(imod), verb)().import_modules_that().are_named(t1)
                    outs.append(run_rule(r, ev)[0])
                if tuple(outs) == bad:
                    viol.append(("monotonic", {"part": "scan", "key": key, "rule": f"{imod} {verb} import {t1}"}, "verdict kept", outs))
    finally:
        remove_scratch(base)
    return viol


def run_shard(shard, tier, seed):
    res = Result(shard["bound"])
    if shard.get("part") == "scan":
        for kind, case, exp, got in scan_monotonic(shard, res):
            res.violation(kind, case, exp, got)
        return res
    for ns, I in shard_graphs(shard, seed):
        ns, I = renamed_graph(ns, I, shard.get("naming", "identity"))
        res.states += 1
        ext = [n for n in ns if n.split(".")[0] != ns[0]]
        pairs = admissible_pairs(ns, root_importee=False, externals=ext)
        for name, specs, o, e in check_graph(ns, I, seed, res, pairs):
            res.violation(name, {"modules": ns, "imports": I, "law": name, "rules": specs, "added_edge": e, "seed": seed},
                          "law holds", o)
        if res.states == 1 and I:
            res.sample({"modules": ns, "imports": I, "laws": "duality/negation/decomposition/alias/monotonic over all subject-object choices"})
    return res


def _check_case(case):
    if case.get("part") == "scan":
        v = scan_monotonic({}, Result(), only=case["key"])
        return (v[0][0], v[0][2], v[0][3]) if v else None
    ns, I = case["modules"], [tuple(e) for e in case["imports"]]
    pairs = [tuple(case["added_edge"])] if case.get("added_edge") else []
    want = [tuple(r["subj"]) for r in case["rules"]]
    for name, specs, o, e in check_graph(ns, I, case.get("seed", 0), None, pairs):
        if name == case["law"] and specs == case["rules"]:
            return (name, "law holds", o)
    return None


def minimise(v):
    if v["case"].get("part") == "scan":
        return dict(v, signature=f"monotonic:scan:{v['case']['key'][1]}")
    case = dict(v["case"])
    changed = True
    while changed:
        changed = False
        for e in list(case["imports"]):
            trial = dict(case, imports=[x for x in case["imports"] if x != e])
            if _check_case(trial):
                case, changed = trial, True
    r = _check_case(case)
    v = dict(v, case=case, observed=r[2])
    rs = case["rules"][0]
    v["signature"] = f"{case['law']}:{rs['verb']}/{rs['exc']}:{'import' if rs['imp'] else 'imported'}:{rs['sk']}/{rs.get('ok')}:edges{len(case['imports'])}"
    return v


def replay(rec):
    r = _check_case(rec["case"])
    if r:
        return [{"kind": r[0], "case": rec["case"], "expected": r[1], "observed": r[2]}]
    return []
