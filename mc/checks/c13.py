"""C13 - undefined or incomplete specifications never produce a verdict (E2 + E1 + E3)."""

from __future__ import annotations

import copy
import itertools
import os
import types

from .. import e2
from ..common import arch, call, remove_scratch, run_rule, scratch_dir, write_tree
from ..e2 import DONT, FREE
from ..engine import Result
from ..impl import build, mkrule, plan_graph_shards, shard_graphs
from ..spaces import SHAPES
from .c16 import rule_canon, lr_canon

from pytestarch import (  # noqa: E402
    DiagramRule,
    LayeredArchitecture,
    LayerRule,
    Rule,
    get_evaluable_architecture,
    get_evaluable_architecture_for_module_objects,
)

ID = "C13"
RULE = (
    "(a) all call histories of the real Rule builder over its 14 fluent methods: plain enumeration "
    "of every history up to the length bound plus BFS with canonical-state dedup to the fixpoint, "
    "each history ended by assert_applies on two architectures and classified by an independent "
    "automaton (MUST_ERROR / COMPLETE / DONT_CARE); single deletions, duplications and "
    "transpositions of complete chains; (b) the same for LayerRule (15 methods, undefined layer "
    "names) and DiagramRule (files with and without tags); (c) every architecture x rule shape x "
    "position x misspelling of a module name, also below the level limit; (d) every invalid option "
    "combination of both entry points. A case is one history / one misspelled rule / one option "
    "combination; non-trivial = classified MUST_ERROR"
)
ASSUMPTIONS = [
    "only MUST_ERROR => 'raises something that is not AssertionError' is enforced; histories the property does not name (repeated calls, two positive verbs, 'anything' followed by explicit objects) are don't-care",
    "module arguments of the builder alphabet are fixed existing modules, one per method",
    "(d) uses one small project tree on tmpfs",
]

MODS = ["r", "r.a", "r.b", "r.b.a", "r.c", "r.d"]
EV_EMPTY = None
EV_FULL = None


def evaluables():
    global EV_EMPTY, EV_FULL
    if EV_EMPTY is None:
        EV_EMPTY = arch(MODS, [])
        leaves = ["r.a", "r.b.a", "r.c", "r.d"]
        imps = [(u, v) for u in leaves for v in MODS[1:] if v != u and not u.startswith(v + ".")]
        EV_FULL = arch(MODS, imps)
    return EV_EMPTY, EV_FULL


# ------------------------------------------------------------------------ (a) Rule builder

RULE_ACTIONS = [
    ("modules_that",), ("are_named",), ("are_sub_modules_of",), ("have_name_matching",), ("have_name_containing",),
    ("should",), ("should_only",), ("should_not",),
    ("import_modules_that",), ("be_imported_by_modules_that",), ("import_modules_except_modules_that",),
    ("be_imported_by_modules_except_modules_that",), ("import_anything",), ("be_imported_by_anything",),
]
ARG = {"are_named": "r.a", "are_sub_modules_of": "r.b", "have_name_matching": "^r\\.c$", "have_name_containing": "*d"}
RULE_METHODS = {}
for (_n,) in RULE_ACTIONS:
    if _n in ARG:
        RULE_METHODS[_n] = (lambda n: lambda o: getattr(o, n)(ARG[n]))(_n)
    else:
        RULE_METHODS[_n] = (lambda n: lambda o: getattr(o, n)())(_n)

MODULE_LIST = set(ARG)
VERBS = {"should", "should_only", "should_not"}
IMPORT_TYPES = {"import_modules_that": False, "be_imported_by_modules_that": False,
                "import_modules_except_modules_that": True, "be_imported_by_modules_except_modules_that": True}
ANYTHING = {"import_anything", "be_imported_by_anything"}

# specification state: (nxt, subj, obj, verbs, imp, exc, anything, mixed)
RULE_INIT = (None, False, False, frozenset(), False, False, False, False)


def rule_spec_step(st, action):
    nxt, subj, obj, verbs, imp, exc, anything, mixed = st
    n = action[0]
    if n == "modules_that":
        return FREE, ("S", subj, obj, verbs, imp, exc, anything, mixed), None
    if n in MODULE_LIST:
        if nxt is None:
            return DONT, st, None  # module list before any subject/object marker
        if nxt == "S":
            return FREE, (nxt, True, obj, verbs, imp, exc, anything, mixed), None
        return FREE, (nxt, subj, True, verbs, imp, exc, anything, mixed or anything), None
    if n in VERBS:
        return FREE, (nxt, subj, obj, verbs | {n}, imp, exc, anything, mixed), None
    if n in IMPORT_TYPES:
        return FREE, ("O", subj, obj, verbs, True, exc or IMPORT_TYPES[n], anything, mixed or anything), None
    if n in ANYTHING:
        return FREE, ("O", subj, obj, verbs, True, exc, True, mixed or obj or exc), None
    raise ValueError(action)


def rule_reason(st):
    nxt, subj, obj, verbs, imp, exc, anything, mixed = st
    if not subj:
        return "missing-subject"
    if not verbs:
        return "missing-verb"
    if not imp:
        return "missing-import-type"
    if not obj and not anything:
        return "missing-object"
    if anything and verbs != {"should_not"}:
        return "anything-with-" + "+".join(sorted(verbs))
    if "should_not" in verbs and len(verbs) > 1:
        return "should_not-with-other-verb"
    return "other"


def rule_classify(st):
    nxt, subj, obj, verbs, imp, exc, anything, mixed = st
    if not subj or not verbs or not imp or (not obj and not anything):
        return "MUST_ERROR"
    if anything and verbs != {"should_not"}:
        return "MUST_ERROR"
    if "should_not" in verbs and len(verbs) > 1:
        return "MUST_ERROR"
    if len(verbs) == 1 and not mixed:
        return "COMPLETE"
    return "DONT_CARE"


def _lr_reason(st):
    if not st[0]:
        return "no-architecture"
    if not st[1]:
        return "no-layers_that"
    if st[10]:
        return "undefined-layer"
    return rule_reason(st[2:10])


REASONS = {"rule": rule_reason, "layer": _lr_reason}


def terminal_check(obj, st, hist, res, classify, part, evs):
    cls = classify(st)
    reason = REASONS.get(part)
    # the same rule object is applied to both architectures and then once more to the first:
    # a MUST_ERROR specification may not turn into a verdict on re-application either
    shared = copy.deepcopy(obj)
    for i, ev in enumerate(list(evs) + [evs[0]]):
        got = run_rule(shared if cls == "MUST_ERROR" else copy.deepcopy(obj), ev)
        res.transitions += 1
        res.evaluations += 1
        res.traces += 1
        res.stats[f"{part}:{cls}:{got[0]}"] += 1
        if cls == "MUST_ERROR":
            res.nontrivial += 1
            if got[0] != "ERR":
                res.violation("incomplete-or-contradictory-specification-gives-verdict",
                              {"part": part, "history": [list(a) for a in hist], "evaluable": i,
                               "reason": reason(st) if reason else ""},
                              "a configuration or lookup error", list(got))


def enumerate_histories(make, actions, methods, spec_init, spec_step, classify, part, max_len, res, evs, shard_i, shard_n):
    """Plain enumeration (no dedup) of every history up to max_len, sharded by first action."""
    idx = 0
    for length in range(0, max_len + 1):
        for hist in itertools.product(actions, repeat=length):
            idx += 1
            if idx % shard_n != shard_i:
                continue
            check_history(make, methods, spec_init, spec_step, classify, part, hist, res, evs)


def check_history(make, methods, spec_init, spec_step, classify, part, hist, res, evs):
    obj, st = make(), spec_init
    for a in hist:
        cls, nxt, _ = spec_step(st, a)
        out = e2.apply(obj, a, methods)
        res.transitions += 1
        if out[0] == "FAIL":
            res.violation("builder-call-raised-assertion-error", {"part": part, "history": [list(x) for x in hist]},
                          "no AssertionError from a builder call", list(out))
            return
        if out[0] == "OK":
            if cls == DONT:
                res.stats[f"{part}:pruned"] += 1
                return  # outside the property
            st = nxt
    res.states += 1
    terminal_check(obj, st, hist, res, classify, part, evs)


def complete_chains():
    chains = []
    for subj in sorted(MODULE_LIST):
        for verb in sorted(VERBS):
            for it in sorted(IMPORT_TYPES):
                for objm in sorted(MODULE_LIST):
                    chains.append((("modules_that",), (subj,), (verb,), (it,), (objm,)))
            for anym in sorted(ANYTHING):
                chains.append((("modules_that",), (subj,), (verb,), (anym,)))
    return chains


def perturbations(chain):
    out = []
    for i in range(len(chain)):
        out.append(chain[:i] + chain[i + 1 :])
        out.append(chain[: i + 1] + chain[i:])
    for i in range(len(chain) - 1):
        c = list(chain)
        c[i], c[i + 1] = c[i + 1], c[i]
        out.append(tuple(c))
    return out


# ------------------------------------------------------------------------- (b) LayerRule


def _arch():
    return (
        LayeredArchitecture()
        .layer("A").containing_modules(["r.a"])
        .layer("B").containing_modules(["r.b"])
        .layer("C").have_modules_with_names_matching("^r\\.c$")
    )


LR_ACTIONS = [
    ("based_on",), ("layers_that",), ("named", "A"), ("named", "B"), ("named", "Z"), ("named_list", ("B", "C")),
    ("should",), ("should_only",), ("should_not",),
    ("access_layers_that",), ("be_accessed_by_layers_that",), ("access_layers_except_layers_that",),
    ("be_accessed_by_layers_except_layers_that",), ("access_any_layer",), ("be_accessed_by_any_layer",),
]
LR_METHODS = {
    "based_on": lambda o: o.based_on(_arch()),
    "named": lambda o, n: o.are_named(n),
    "named_list": lambda o, ns: o.are_named(list(ns)),
}
for _m in ("layers_that", "should", "should_only", "should_not", "access_layers_that", "be_accessed_by_layers_that",
           "access_layers_except_layers_that", "be_accessed_by_layers_except_layers_that", "access_any_layer",
           "be_accessed_by_any_layer"):
    LR_METHODS[_m] = (lambda name: lambda o: getattr(o, name)())(_m)
LR_IMPORT = {"access_layers_that": False, "be_accessed_by_layers_that": False,
             "access_layers_except_layers_that": True, "be_accessed_by_layers_except_layers_that": True}
LR_ANY = {"access_any_layer", "be_accessed_by_any_layer"}
# (has_arch, has_rule, nxt, subj, obj, verbs, imp, exc, anything, mixed, undefined)
LR_INIT = (False, False, None, False, False, frozenset(), False, False, False, False, False)


def lr_spec_step(st, action):
    has_arch, has_rule, nxt, subj, obj, verbs, imp, exc, anything, mixed, undef = st
    n = action[0]
    if n == "based_on":
        if has_arch:
            return DONT, st, None
        return FREE, (True,) + st[1:], None
    if n == "layers_that":
        if not has_arch:
            return DONT, st, None
        return FREE, (True, True, "S", False, False, frozenset(), False, False, False, False, False), None
    if not has_rule:
        return DONT, st, None
    if n in ("named", "named_list"):
        und = undef or (n == "named" and action[1] == "Z")
        if nxt == "S":
            if subj or n == "named_list":
                return DONT, st, None  # second subject / batch subject: C16's business
            return FREE, (has_arch, has_rule, nxt, True, obj, verbs, imp, exc, anything, mixed, und), None
        return FREE, (has_arch, has_rule, nxt, subj, True, verbs, imp, exc, anything, mixed or anything, und), None
    if n in VERBS:
        return FREE, (has_arch, has_rule, nxt, subj, obj, verbs | {n}, imp, exc, anything, mixed, undef), None
    if n in LR_IMPORT:
        return FREE, (has_arch, has_rule, "O", subj, obj, verbs, True, exc or LR_IMPORT[n], anything, mixed or anything, undef), None
    if n in LR_ANY:
        return FREE, (has_arch, has_rule, "O", subj, obj, verbs, True, exc, True, mixed or obj or exc, undef), None
    raise ValueError(action)


def lr_classify(st):
    has_arch, has_rule, nxt, subj, obj, verbs, imp, exc, anything, mixed, undef = st
    if not has_arch or not has_rule or undef:
        return "MUST_ERROR"
    return rule_classify((nxt, subj, obj, verbs, imp, exc, anything, mixed))


# ----------------------------------------------------------------------- (b) DiagramRule

PUML = {
    "good": "@startuml\n[a] --> [b]\n@enduml\n",
    "notags": "[a] --> [b]\n",
    "noend": "@startuml\n[a] --> [b]\n",
    "nostart": "[a] --> [b]\n@enduml\n",
}
_DIAG_DIR = None


def diagram_files():
    global _DIAG_DIR
    if _DIAG_DIR is None:
        _DIAG_DIR = scratch_dir("puml")
        write_tree(_DIAG_DIR, {f"{k}.puml": v for k, v in PUML.items()})
    return _DIAG_DIR


DR_ACTIONS = [("from_file", k) for k in PUML] + [("with_base_module", "r"), ("included",)]
DR_METHODS = {
    "from_file": lambda o, k: o.from_file(os.path.join(diagram_files(), f"{k}.puml")),
    "with_base_module": lambda o, p: o.with_base_module(p),
    "included": lambda o: o.base_module_included_in_module_names(),
}


def dr_spec_step(st, action):
    if action[0] == "from_file":
        return FREE, action[1], None
    return FREE, st, None


def dr_classify(st):
    if st is None or st != "good":
        return "MUST_ERROR"
    return "DONT_CARE"


# ------------------------------------------------------------------- (c) unknown names


def misspellings(name):
    out = {name[:-1], name + "x", name[:-1] + "z", name.swapcase() if name.swapcase() != name else name + "X",
           name + ".nope", name.rsplit(".", 1)[0] + "." if "." in name else name + ".", "zzz"}
    return sorted(x for x in out if x and x != name)


def unknown_name_cases(ns, I, seed, res, level_limit=None, extra_unknown=()):
    ev = build(ns, I, seed, level_limit)
    present = set(ev.modules)
    known = [n for n in ns[1:] if n in present]
    if len(known) < 2:
        return
    a, b = known[0], known[1]
    bad_names = []
    for n in (a, b):
        bad_names += [m for m in misspellings(n) if m not in present]
    bad_names += [x for x in extra_unknown if x not in present]
    bad_names = sorted(set(bad_names))
    for bad in bad_names:
        for pos in ("subj", "obj"):
            for kind in ("named", "sub"):
                specs = []
                for verb, imp, exc in SHAPES:
                    if pos == "subj":
                        specs.append(dict(verb=verb, imp=imp, exc=exc, sk=kind, subj=(bad,), ok="named", obj=(b,)))
                    else:
                        specs.append(dict(verb=verb, imp=imp, exc=exc, sk="named", subj=(a,), ok=kind, obj=(bad,)))
                if pos == "subj":
                    for imp in (True, False):
                        specs.append(dict(verb="should_not", imp=imp, exc=False, sk=kind, subj=(bad,), ok=None, obj=None, anything=True))
                        # unknown name in a batch next to existing modules (also below one of them)
                        for batch in ((a, bad), (bad, b), (a, b, bad)):
                            specs.append(dict(verb="should_not", imp=imp, exc=False, sk=kind, subj=batch, ok=None, obj=None, anything=True))
                    for verb, imp, exc in SHAPES:
                        specs.append(dict(verb=verb, imp=imp, exc=exc, sk=kind, subj=(b, bad), ok="named", obj=(a,)))
                else:
                    for verb, imp, exc in SHAPES:
                        specs.append(dict(verb=verb, imp=imp, exc=exc, sk="named", subj=(a,), ok=kind, obj=(b, bad)))
                for spec in specs:
                    got = run_rule(mkrule(spec, seed), ev)
                    res.transitions += 1
                    res.evaluations += 1
                    res.traces += 1
                    res.nontrivial += 1
                    res.stats[f"unknown-name:{got[0]}"] += 1
                    if got[0] != "ERR":
                        res.violation("unknown-module-name-gives-verdict",
                                      {"part": "unknown-name", "modules": ns, "imports": I, "level_limit": level_limit,
                                       "rule": {k: (list(v) if isinstance(v, tuple) else v) for k, v in spec.items()}, "seed": seed},
                                      "a lookup error", list(got))
    # regex matching nothing: alone, and in a list after / before a pattern that does match
    import re as _re

    for pos in ("subj", "obj"):
        hit = "^" + _re.escape(a if pos == "subj" else b) + "$"
        for variant, pats in (("alone", "^zzz$"), ("after-match", [hit, "^zzz$"]), ("before-match", ["^zzz$", hit])):
            for verb, imp, exc in SHAPES:
                r = Rule().modules_that()
                r = r.have_name_matching(pats) if pos == "subj" else r.are_named(a)
                r = getattr(r, verb)()
                from ..impl import IMPORT_METHOD

                r = getattr(r, IMPORT_METHOD[(imp, exc)])()
                r = r.are_named(b) if pos == "subj" else r.have_name_matching(pats)
                got = run_rule(r, ev)
                res.transitions += 1
                res.traces += 1
                res.stats[f"regex-nomatch:{got[0]}"] += 1
                if got[0] != "ERR":
                    res.violation("regex-without-match-gives-verdict",
                                  {"part": "regex-nomatch", "modules": ns, "imports": I, "pos": pos, "shape": [verb, imp, exc], "patterns": variant},
                                  "a no-match error", list(got))


# -------------------------------------------------------------------- (d) entry points

TREE = {
    "top/proj/__init__.py": "",
    "top/proj/a.py": "import os\nfrom proj.b import c\n",
    "top/proj/b/__init__.py": "",
    "top/proj/b/c.py": "import proj.a\n",
    "top/other/__init__.py": "",
    "top/other/x.py": "",
}


def empty_spec_cases(res, only=None):
    """A subject or object given as an empty list is a missing subject / object: never a verdict."""
    from pytestarch import LayeredArchitecture as LA
    from pytestarch import LayerRule as LR
    from pytestarch import Rule as R

    from ..impl import ACCESS_METHOD, IMPORT_METHOD
    from ..spaces import SHAPES

    evs = evaluables()
    filters = ("are_named", "are_sub_modules_of", "have_name_containing")
    cases = []
    for verb, imp, exc in SHAPES:
        for pos in ("subject", "object"):
            for flt in filters:
                cases.append(("rule", verb, imp, exc, pos, flt))
    for imp in (True, False):
        for flt in filters:
            cases.append(("rule-anything", "should_not", imp, False, "subject", flt))
    for verb, imp, exc in SHAPES:
        for pos in ("object-empty-list", "subject-layer-without-modules", "object-layer-without-modules"):
            cases.append(("layer", verb, imp, exc, pos, "are_named"))

    def make(c):
        kind, verb, imp, exc, pos, flt = c
        if kind.startswith("rule"):
            r = R().modules_that()
            r = getattr(r, flt)([] if pos == "subject" else "r.a")
            r = getattr(r, verb)()
            if kind == "rule-anything":
                return r.import_anything() if imp else r.be_imported_by_anything()
            r = getattr(r, IMPORT_METHOD[(imp, exc)])()
            return getattr(r, flt)([] if pos == "object" else "r.c")
        la = LA().layer("A").containing_modules(["r.a"]).layer("B").containing_modules(["r.c"]).layer("X")
        subj = "X" if pos == "subject-layer-without-modules" else "A"
        r = LR().based_on(la).layers_that().are_named(subj)
        r = getattr(r, verb)()
        r = getattr(r, ACCESS_METHOD[(imp, exc)])()
        return r.are_named([] if pos == "object-empty-list" else ("X" if pos == "object-layer-without-modules" else "B"))

    for c in cases:
        if only is not None and list(c) != only:
            continue
        for ev in evs:
            try:
                got = run_rule(make(c), ev)
            except Exception as e:  # noqa: BLE001 - rejected while building: fine
                got = ("ERR", f"{type(e).__name__}: {e}")
            res.transitions += 1
            res.evaluations += 1
            res.traces += 1
            res.nontrivial += 1
            res.states += 1
            res.stats[f"empty-spec:{got[0]}"] += 1
            if got[0] != "ERR":
                res.violation("empty-subject-or-object-gives-verdict", {"part": "empty", "case": list(c)}, "a configuration error", list(got))
                break


def reconfigured_cases(res, only=None):
    """A rule object that was evaluated once and is then pointed at something undefined (another base
    module, an unknown module name, a diagram without tags) must not keep giving the earlier verdict."""
    import pathlib

    evs = evaluables()
    d = diagram_files()
    good = pathlib.Path(os.path.join(d, "good.puml"))

    def dr_base(so):
        r = DiagramRule(should_only_rule=so).from_file(good).with_base_module("r")
        return r, (lambda: r.with_base_module("r.zz_undefined"))

    def dr_file(so):
        r = DiagramRule(should_only_rule=so).from_file(good).with_base_module("r")
        return r, (lambda: r.from_file(pathlib.Path(os.path.join(d, "notags.puml"))))

    def rule_obj(verb):
        r = getattr(Rule().modules_that().are_named("r.a"), verb)().import_modules_that().are_named("r.c")
        return r, (lambda: r.are_named("r.zz_undefined"))

    def rule_subj(verb):
        r = getattr(Rule().modules_that().are_named("r.a"), verb)().import_modules_that().are_named("r.c")
        return r, (lambda: r.modules_that().are_sub_modules_of("r.zz_undefined"))

    def dr_typo(order):
        # a diagram in which one component does not exist, next to a pair of components whose rule is violated
        # on the architecture without imports (a does not import b): the aggregate must still be an error
        lines = ["[a] --> [b]", "[c] --> [zz_typo]"] if order == "violated-first" else ["[zz_typo] --> [c]", "[a] --> [b]"]
        path = pathlib.Path(os.path.join(d, f"typo-{order}.puml"))
        path.write_text("@startuml\n" + "\n".join(lines) + "\n@enduml\n")
        r = DiagramRule().from_file(path).with_base_module("r")
        return r, (lambda: None)

    cases = [("diagram-base", so, dr_base) for so in (True, False)] + [("diagram-file", so, dr_file) for so in (True, False)]
    cases += [("diagram-unknown-component", o, dr_typo) for o in ("violated-first", "violated-last")]
    cases += [("rule-object", v, rule_obj) for v in ("should", "should_only", "should_not")]
    cases += [("rule-subject", v, rule_subj) for v in ("should", "should_only", "should_not")]
    for name, arg, mk_ in cases:
        if only is not None and only != [name, arg]:
            continue
        for ev in evs:
            r, reconfigure = mk_(arg)
            first = run_rule(r, ev) if name != "diagram-unknown-component" else ("-", "")
            try:
                reconfigure()
                got = run_rule(r, ev)
            except Exception as e:  # noqa: BLE001 - rejected at the call: fine
                got = ("ERR", f"{type(e).__name__}: {e}")
            res.transitions += 2
            res.evaluations += 1
            res.traces += 1
            res.nontrivial += 1
            res.states += 1
            res.stats[f"reconfigured:{first[0]}->{got[0]}"] += 1
            if got[0] != "ERR":
                res.violation("rule-object-re-configured-with-something-undefined-gives-verdict",
                              {"part": "reconfigured", "case": [name, arg]}, "a configuration or lookup error", list(got))
                break


def entry_point_cases(res):
    base = scratch_dir("entry")
    try:
        write_tree(base, TREE)
        root = os.path.join(base, "top", "proj")
        sub = os.path.join(root, "b")

        def modobj(path):
            m = types.ModuleType("m")
            m.__file__ = os.path.join(path, "__init__.py")
            return m

        bad_option_sets = [
            dict(exclusions=("*x*",), regex_exclusions=(".*y.*",)),
            dict(regex_exclusions=(".*y.*",)),  # default exclusions are non-empty -> both given
            dict(external_exclusions=("os",), regex_external_exclusions=("os",), exclude_external_libraries=False),
            dict(external_exclusions=("os",), exclude_external_libraries=True),
            dict(regex_external_exclusions=("os",), exclude_external_libraries=True),
            dict(external_exclusions=("os",)),  # externals excluded by default
            dict(regex_external_exclusions=("os",)),
        ]
        bad_paths = [
            (root, os.path.join(base, "top", "other")),  # sibling of root
            (sub, root),  # module_path above root_path
            (root, os.path.join(base, "top")),  # parent of root
        ]
        extras = [dict(), dict(level_limit=1)]
        for mp in (root, sub):
            for opts in bad_option_sets:
                for extra in extras:
                    for entry in ("path", "module"):
                        kw = dict(opts, **extra)
                        if entry == "path":
                            out = call(get_evaluable_architecture, root, mp, **kw)
                        else:
                            out = call(get_evaluable_architecture_for_module_objects, modobj(root), modobj(mp), **kw)
                        res.transitions += 1
                        res.evaluations += 1
                        res.traces += 1
                        res.nontrivial += 1
                        res.states += 1
                        res.stats[f"entry-options:{out[0]}"] += 1
                        if out[0] != "ERR":
                            res.violation("invalid-option-combination-accepted",
                                          {"part": "entry", "options": {k: list(v) if isinstance(v, tuple) else v for k, v in kw.items()},
                                           "module_path": os.path.relpath(mp, base), "entry": entry},
                                          "ImproperlyConfigured", [out[0], str(out[1])[:200]])
        for rp, mp in bad_paths:
            for extra in extras:
                for entry in ("path", "module"):
                    if entry == "path":
                        out = call(get_evaluable_architecture, rp, mp, **extra)
                    else:
                        out = call(get_evaluable_architecture_for_module_objects, modobj(rp), modobj(mp), **extra)
                    res.transitions += 1
                    res.traces += 1
                    res.nontrivial += 1
                    res.states += 1
                    res.stats[f"entry-path:{out[0]}"] += 1
                    if out[0] != "ERR":
                        res.violation("module-path-outside-root-accepted",
                                      {"part": "entry", "root": os.path.relpath(rp, base), "module_path": os.path.relpath(mp, base), "entry": entry},
                                      "an error", [out[0], str(out[1])[:200]])
        # positive control: the valid configurations do build
        for entry in ("path", "module"):
            out = call(get_evaluable_architecture, root, sub) if entry == "path" else call(
                get_evaluable_architecture_for_module_objects, modobj(root), modobj(sub))
            res.stats[f"entry-valid:{out[0]}"] += 1
    finally:
        remove_scratch(base)


# ------------------------------------------------------------------------------ plan / run


def plan(tier, seed):
    L = 4 if tier == "quick" else 5
    n = 16
    shards = [{"part": "rule-enum", "len": L, "i": i, "n": n, "bound": f"Rule histories len<={L} (no dedup)"} for i in range(n)]
    shards.append({"part": "rule-bfs", "bound": "Rule BFS to fixpoint"})
    shards.append({"part": "rule-tla", "bound": "TLC RuleBuilder model + conformance replay"})
    shards.append({"part": "layer-tla", "bound": "TLC LayerRuleBuilder model + conformance replay"})
    shards.append({"part": "rule-perturb", "bound": "Rule complete chains +- one call"})
    Ll = 5 if tier == "quick" else 6
    shards.append({"part": "layer-bfs", "depth": 8 if tier == "quick" else 11, "bound": "LayerRule BFS"})
    shards += [{"part": "layer-enum", "len": Ll, "i": i, "n": n, "bound": f"LayerRule histories len<={Ll} (no dedup)"} for i in range(n)]
    shards.append({"part": "diagram", "len": 4 if tier == "quick" else 5, "bound": "DiagramRule histories"})
    shards.append({"part": "entry", "bound": "entry point option combinations"})
    shards.append({"part": "empty", "bound": "empty subject / object lists"})
    gs = plan_graph_shards("A", n_max=4, chunk=16) if tier == "quick" else plan_graph_shards("A", n_max=5, chunk=64)
    for s in gs:
        shards.append(dict(s, part="unknown", bound="unknown names " + s["bound"]))
    req = ["rule:MUST_ERROR:ERR", "rule:COMPLETE:PASS", "rule:COMPLETE:FAIL", "layer:MUST_ERROR:ERR", "layer:COMPLETE:PASS",
           "layer:COMPLETE:FAIL", "diagram:MUST_ERROR:ERR", "unknown-name:ERR", "regex-nomatch:ERR", "entry-options:ERR",
           "entry-path:ERR", "entry-valid:OK", "empty-spec:ERR", "rule-tla:MUST_ERROR", "rule-tla:COMPLETE", "layer-rule-tla:MUST_ERROR", "layer-rule-tla:COMPLETE"]
    return {"shards": shards, "require_nonzero": req}


def run_shard(shard, tier, seed):
    res = Result(shard["bound"])
    part = shard["part"]
    evs = evaluables()
    if part == "rule-enum":
        enumerate_histories(Rule, RULE_ACTIONS, RULE_METHODS, RULE_INIT, rule_spec_step, rule_classify, "rule",
                            shard["len"], res, evs, shard["i"], shard["n"])
        res.sample({"history": ["modules_that", "are_named", "should", "import_anything"], "class": "MUST_ERROR"})
    elif part == "rule-bfs":
        def on_node(obj, st, hist):
            terminal_check(obj, st, hist, res, rule_classify, "rule", evs)

        n, t, fix, deep = e2.explore(Rule, RULE_ACTIONS, RULE_METHODS, lambda o: rule_canon(o), RULE_INIT, rule_spec_step,
                                     lambda o: None, 14, res, on_node=on_node)
        res.extra["rule_bfs_fixpoint"] = bool(fix)
        res.extra["rule_bfs_states"] = n
        res.extra["rule_bfs_depth"] = deep
    elif part == "rule-perturb":
        for chain in complete_chains():
            for h in [chain] + perturbations(chain):
                check_history(Rule, RULE_METHODS, RULE_INIT, rule_spec_step, rule_classify, "rule", h, res, evs)
    elif part == "layer-bfs":
        def on_node(obj, st, hist):
            terminal_check(obj, st, hist, res, lr_classify, "layer", evs)

        n, t, fix, deep = e2.explore(LayerRule, LR_ACTIONS, LR_METHODS, lr_canon, LR_INIT, lr_spec_step, lambda o: None,
                                     shard["depth"], res, on_node=on_node)
        res.extra["layer_bfs_fixpoint"] = bool(fix)
        res.extra["layer_bfs_states"] = n
    elif part == "layer-enum":
        enumerate_histories(LayerRule, LR_ACTIONS, LR_METHODS, LR_INIT, lr_spec_step, lr_classify, "layer",
                            shard["len"], res, evs, shard["i"], shard["n"])
    elif part == "diagram":
        try:
            enumerate_histories(DiagramRule, DR_ACTIONS, DR_METHODS, None, dr_spec_step, dr_classify, "diagram",
                                shard["len"], res, evs, 0, 1)
            for sor in (True, False):
                for h in itertools.product(DR_ACTIONS, repeat=2):
                    check_history(lambda: DiagramRule(should_only_rule=sor), DR_METHODS, None, dr_spec_step, dr_classify,
                                  "diagram", h, res, evs)
        finally:
            global _DIAG_DIR
            if _DIAG_DIR:
                remove_scratch(_DIAG_DIR)
                _DIAG_DIR = None
    elif part == "rule-tla":
        import sys

        from .. import conform_rule_tla

        conform_rule_tla.run(res, tier, sys.modules[__name__])
    elif part == "layer-tla":
        import sys

        from .. import conform_layerrule_tla
        from . import c16

        conform_layerrule_tla.run(res, tier, sys.modules[__name__], c16, "terminal")
    elif part == "entry":
        entry_point_cases(res)
    elif part == "empty":
        try:
            reconfigured_cases(res)
        finally:
            if _DIAG_DIR:
                remove_scratch(_DIAG_DIR)
                _DIAG_DIR = None
        empty_spec_cases(res)
        res.sample({"part": "empty", "rule": "Rule().modules_that().are_named([]).should().import_modules_that().are_named('r.c')", "expected": "ImproperlyConfigured"})
    elif part == "unknown":
        for ns, I in shard_graphs(shard, seed):
            res.states += 1
            unknown_name_cases(ns, I, seed, res)
            depth = max(n.count(".") for n in ns)
            for k in range(1, depth):
                below = [n for n in ns if n.count(".") > k]
                unknown_name_cases(ns, I, seed, res, level_limit=k, extra_unknown=below)
            # level_limit = 0: only the root module exists, every other name is unknown
            ev0 = build(ns, I, seed, 0)
            if len(ns) >= 3:
                a, b = ns[1], ns[2]
                specs0 = [dict(verb=verb, imp=imp, exc=exc, sk=kind, subj=(a,), ok=kind, obj=(b,)) for verb, imp, exc in SHAPES for kind in ("named", "sub")]
                specs0 += [dict(verb="should_not", imp=imp, exc=False, sk="named", subj=(a,), ok=None, obj=None, anything=True) for imp in (True, False)]
                for spec in specs0:
                    got = run_rule(mkrule(spec, seed), ev0)
                    res.transitions += 1
                    res.evaluations += 1
                    res.traces += 1
                    res.nontrivial += 1
                    res.stats[f"unknown-name:{got[0]}"] += 1
                    if got[0] != "ERR":
                        res.violation("unknown-module-name-gives-verdict",
                                      {"part": "unknown-name", "modules": ns, "imports": I, "rule": spec, "level_limit": 0, "seed": seed},
                                      "a lookup error", list(got))
    return res


PARTS = {
    "rule": (Rule, RULE_METHODS, RULE_INIT, rule_spec_step, rule_classify),
    "layer": (LayerRule, LR_METHODS, LR_INIT, lr_spec_step, lr_classify),
    "diagram": (DiagramRule, DR_METHODS, None, dr_spec_step, dr_classify),
}


def _check_case(case):
    res = Result()
    part = case["part"]
    if part in PARTS:
        make, methods, init, step, classify = PARTS[part]
        hist = [tuple(tuple(x) if isinstance(x, list) else x for x in a) for a in case["history"]]
        try:
            check_history(make, methods, init, step, classify, part, hist, res, evaluables())
        finally:
            global _DIAG_DIR
            if _DIAG_DIR:
                remove_scratch(_DIAG_DIR)
                _DIAG_DIR = None
    elif part == "unknown-name":
        ns, I = case["modules"], [tuple(e) for e in case["imports"]]
        ev = build(ns, I, case.get("seed", 0), case.get("level_limit"))
        spec = case["rule"]
        got = run_rule(mkrule(spec, case.get("seed", 0)), ev)
        if got[0] != "ERR":
            res.violation("unknown-module-name-gives-verdict", case, "a lookup error", list(got))
    elif part == "regex-nomatch":
        ns, I = case["modules"], [tuple(e) for e in case["imports"]]
        unknown_name_cases(ns, I, 0, res)
        res.violations = [v for v in res.violations if v["kind"] == "regex-without-match-gives-verdict"]
    elif part == "layer-tla":
        import sys

        from .. import conform_layerrule_tla
        from . import c16

        conform_layerrule_tla.run(res, tier, sys.modules[__name__], c16, "terminal")
    elif part == "entry":
        entry_point_cases(res)
    elif part == "reconfigured":
        try:
            reconfigured_cases(res, only=case["case"])
        finally:
            if _DIAG_DIR:
                remove_scratch(_DIAG_DIR)
                _DIAG_DIR = None
    elif part == "empty":
        empty_spec_cases(res, only=case["case"])
    vs = [v for v in res.violations]
    if vs:
        return (vs[0]["kind"], vs[0]["expected"], vs[0]["observed"])
    return None


def minimise(v):
    v = dict(v)
    c = v["case"]
    if "history" in c:
        v["signature"] = f"{v['kind']}:{c['part']}:{c.get('reason') or '>'.join(a[0] for a in c['history'])}"
    elif c["part"] == "unknown-name":
        r = c["rule"]
        v["signature"] = f"{v['kind']}:{'anything' if r.get('anything') else r['verb'] + '/' + str(r['exc'])}:{'import' if r['imp'] else 'imported'}:{r['sk']}/{r.get('ok')}:limit{c.get('level_limit')}"
    elif c["part"] == "reconfigured":
        v["signature"] = f"{v['kind']}:{c['case'][0]}"
    elif c["part"] == "empty":
        v["signature"] = f"{v['kind']}:{c['case'][0]}:{c['case'][4]}:{c['case'][5]}"
    else:
        v["signature"] = f"{v['kind']}:{c['part']}:{c.get('entry', '')}:{sorted((c.get('options') or {}).keys())}"
    return v


def replay(rec):
    r = _check_case(rec["case"])
    if r:
        return [{"kind": r[0], "case": rec["case"], "expected": r[1], "observed": r[2]}]
    return []
