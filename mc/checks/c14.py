"""C14 - module identity follows dotted-name boundaries: invariance of every result under
injective renamings of path components (E1 + E3, metamorphic, oracle-free)."""

from __future__ import annotations

import itertools
import os
import re

from ..common import call, remove_scratch, run_rule, scratch_dir, write_tree
from ..engine import Result
from ..impl import build, mk_layer_rule, mk_layered_architecture, mkrule, plan_graph_shards, rule_specs, shard_graphs
from ..refmodel import Unparsable, label_model, parse_layer_message, parse_rule_message, spec_to_json
from ..scan import observed, scan
from ..scanmodel import source
from ..spaces import NAMINGS, nodes, rename, subject_choices, trees
from . import c05, c17
from .c04 import materialise as c04_materialise
from .c08 import tree_space

ID = "C14"
RULE = (
    "every case is executed under the identity naming (components a, b, c ...: collision-free) and "
    "under injective renamings of path components - a collision-free one and adversarial ones that "
    "make siblings and cousins string prefixes / substrings of each other (a, ab, a_b, aa, aab; "
    "thorough: also non-ASCII identifiers) - and the results must be equal after mapping names "
    "back: (1) module rules over the architecture / rule space of C01 (related subjects and "
    "objects included): verdict and parsed message; (2) layer rules over C05's layerings (name-"
    "defined layers): verdict, parsed message and layer tags; (3) plot labels (C17's space, against "
    "the dotted-boundary label model under each naming); (4) real scans of directory trees and of "
    "the externals layout with exact-name external exclusions: module and edge sets. Regex "
    "specifications are excluded. A case is one (input, renaming) pair; non-trivial = the renaming "
    "creates at least one string-prefix collision between two modules of the input"
)
ASSUMPTIONS = [
    "renamings act on whole dotted components and are injective; regexes and glob patterns other than exact full names are excluded (their meaning legitimately depends on the raw strings)",
    "messages are compared after parsing with the anchored line grammar and mapping every quoted name back",
]

RENAMINGS = ["lengths", "adversarial", "adversarial2", "adversarial3", "hyphen", "case", "case2"]
NAMING_MAPS = dict(NAMINGS)
NAMING_MAPS["adversarial2"] = {"r": "a", "a": "a_", "b": "aa", "c": "a_a", "d": "aaa", "e": "ab", "p": "a__", "q": "aab"}
# a nested module r.a.b next to a sibling package r.a_b: '.' vs. any other single character
NAMING_MAPS["adversarial3"] = {"r": "r", "a": "a", "b": "b", "c": "a_b", "d": "a-b", "e": "aXb"}
# siblings that differ in letter case only or sort differently with and without regard to case
NAMING_MAPS["case"] = {"r": "r", "a": "alpha", "b": "Beta", "c": "ALPHA", "d": "beta", "e": "Alpha_b", "p": "P", "q": "q"}
# the package that has sub modules is the only capitalised sibling: it sorts first by code point, last without regard to case
NAMING_MAPS["case2"] = {"r": "r", "a": "Zed", "b": "alpha", "c": "beta", "d": "Delta", "e": "eps", "p": "P", "q": "q"}
T7 = (((), ()), (), ((),))  # r.a{a,b}, r.b, r.c{a}
for _m in NAMING_MAPS.values():
    assert len(set(_m.values())) == len(_m), "renaming must be injective"


def inv(m):
    return {v: k for k, v in m.items()}


def ren_spec(spec, m):
    out = dict(spec)
    for k in ("subj", "obj"):
        if out.get(k) is not None:
            out[k] = tuple(rename(x, m) for x in out[k])
    return out


def back_names(x, im):
    """Map every dotted name inside a parsed structure back through the inverse renaming."""
    if isinstance(x, str):
        return rename(x, im) if not x.startswith(("(", "a sub module")) else x
    if isinstance(x, (tuple, list)):
        return tuple(sorted((back_names(i, im) for i in x), key=repr)) if isinstance(x, tuple) and x and isinstance(x[0], tuple) else tuple(back_names(i, im) for i in x)
    if isinstance(x, bool) or x is None:
        return x
    return x


def norm_rule_outcome(got, imp, im):
    if got[0] != "FAIL":
        return (got[0], got[1].split(":")[0] if got[0] == "ERR" else "")
    try:
        real, miss = parse_rule_message(got[1], imp)
    except Unparsable as e:
        return ("FAIL", "UNPARSABLE " + str(e))
    real = sorted((rename(a, im), rename(b, im)) for a, b in real)
    miss = sorted(((k[0], rename(k[1], im), k[2]), tuple(sorted((q, rename(o, im)) for q, o in v))) for k, v in miss.items())
    return ("FAIL", real, miss)


def collisions(ns):
    return any(a != b and b.startswith(a) and not b.startswith(a + ".") for a in ns for b in ns)


# ------------------------------------------------------------------------ (1) module rules

_SPECS = {}


def _specs(ns):
    key = tuple(ns)
    if key not in _SPECS:
        _SPECS.clear()
        _SPECS[key] = rule_specs(ns, max_s=2, max_o=2, antichain=False)
        # the root module itself as single subject or object
        _SPECS[key] += [sp for sp in rule_specs(ns, max_s=1, max_o=1, antichain=False, exclude=(), aliases=True)
                        if ns[0] in sp["subj"] or (sp.get("obj") and ns[0] in sp["obj"])]
        # the 'anything' aliases with three subjects (a module, one of its sub modules and a sibling, ...)
        for subj in subject_choices(ns, 3, False, (ns[0],)):
            if len(subj) == 3:
                for imp in (True, False):
                    _SPECS[key].append(dict(verb="should_not", imp=imp, exc=False, sk="named", subj=subj, ok=None, obj=None, anything=True))
    return _SPECS[key]


def rules_part(ns, I, seed, res, only=None):
    viol = []
    ev0 = build(ns, I, seed)
    evs = {}
    for rn in RENAMINGS:
        m = NAMING_MAPS[rn]
        ns2 = [rename(n, m) for n in ns]
        evs[rn] = (m, ns2, build(ns2, [(rename(a, m), rename(b, m)) for a, b in I], seed))
    for spec in _specs(ns):
        if only is not None and spec_to_json(spec) != only:
            continue
        base = norm_rule_outcome(run_rule(mkrule(spec, seed), ev0), spec["imp"], {})
        for rn, (m, ns2, ev2) in evs.items():
            got = norm_rule_outcome(run_rule(mkrule(ren_spec(spec, m), seed), ev2), spec["imp"], inv(m))
            if res is not None:
                res.transitions += 2
                res.evaluations += 1
                res.traces += 1
                res.stats[f"rules:{base[0]}"] += 1
                if collisions(ns2):
                    res.nontrivial += 1
            if got != base:
                viol.append(("module-rule-result-changes-under-renaming", {"part": "rules", "modules": ns, "imports": I, "rule": spec_to_json(spec), "renaming": rn, "seed": seed},
                             _j(base), _j(got)))
    return viol


def _j(x):
    import json

    return json.loads(json.dumps(x, default=str))


# ------------------------------------------------------------------------- (2) layer rules


def norm_layer_outcome(got, imp, im):
    if got[0] != "FAIL":
        return (got[0], got[1].split(":")[0] if got[0] == "ERR" else "")
    try:
        real, miss = parse_layer_message(got[1], imp)
    except Unparsable as e:
        return ("FAIL", "UNPARSABLE " + str(e))
    real = sorted((rename(a, im), ta, rename(b, im), tb) for a, ta, b, tb in real)
    return ("FAIL", real, sorted(miss))


def _layer_outcome(layers, spec, seed, ev, im):
    """Define the layers, build the rule, evaluate: a definition or rule that is rejected is an
    outcome like any other (it must be rejected under every renaming or under none)."""
    try:
        la = mk_layered_architecture(c05.layer_defs(layers, "names"), seed)
        rule = mk_layer_rule(la, spec, seed)
    except Exception as e:  # noqa: BLE001
        return ("ERR-while-defining", type(e).__name__)
    return norm_layer_outcome(run_rule(rule, ev), spec["imp"], im)


def layers_part(ns, I, seed, res, only=None):
    viol = []
    ev0 = build(ns, I, seed)
    evs = {}
    for rn in RENAMINGS:
        m = NAMING_MAPS[rn]
        ns2 = [rename(n, m) for n in ns]
        evs[rn] = (m, ns2, build(ns2, [(rename(a, m), rename(b, m)) for a, b in I], seed))
    for layers, specs in c05._layerings(ns):
        if len(ns) > 6 and (len(layers) > 2 or sum(len(v) for v in layers.values()) > 3):
            continue  # large trees: two layers with at most three modules
        for spec in specs:
            if only is not None and only != [layers, spec]:
                continue
            base = _layer_outcome(layers, spec, seed, ev0, {})
            for rn, (m, ns2, ev2) in evs.items():
                layers2 = {l: [rename(x, m) for x in ms] for l, ms in layers.items()}
                got = _layer_outcome(layers2, spec, seed, ev2, inv(m))
                if res is not None:
                    res.transitions += 2
                    res.evaluations += 1
                    res.traces += 1
                    res.stats[f"layers:{base[0]}"] += 1
                    if collisions(ns2):
                        res.nontrivial += 1
                if got != base:
                    viol.append(("layer-rule-result-changes-under-renaming",
                                 {"part": "layers", "modules": ns, "imports": I, "layers": layers, "rule": spec, "renaming": rn, "seed": seed}, _j(base), _j(got)))
    return viol


# ------------------------------------------------------------------------------ (3) labels


def labels_part(ns, res, k=2):
    viol = []
    for rn in ["identity"] + RENAMINGS:
        m = NAMING_MAPS[rn]
        ns2 = [rename(n, m) for n in ns]
        shared = None
        for kk in range(1, k + 1):
            for keys in itertools.combinations(ns2, kk):
                for vals in itertools.product(["A", "x.y"] + ns2[:1], repeat=kk):
                    aliases = dict(zip(keys, vals))
                    v = c17.check(ns2, [], aliases, None, {}, None)
                    if res is not None:
                        res.transitions += 1
                        res.evaluations += 1
                        res.traces += 1
                        res.stats["labels"] += 1
                        if collisions(ns2):
                            res.nontrivial += 1
                    if v:
                        viol.append(("plot-label-ignores-dotted-boundaries", {"part": "labels", "modules": ns2, "aliases": aliases, "renaming": rn}, v[1], v[2]))
    return viol


# ------------------------------------------------------------------------------- (4) scans

SCAN_MAP = {"top": "rt", "a": "alpha", "ab": "beta", "a+b": "gamma", "topx": "other", "orders": "oo", "order": "pp", "der": "qq"}
# a second target naming whose components begin or end with the text of the file suffix (py, pypy, happy): a name is
# a name, also when it looks like '.py' once it is joined with dots
SCAN_MAP_PY = {"top": "rt", "a": "py", "ab": "pypy", "a+b": "happy", "topx": "pyo", "orders": "oo", "order": "pp", "der": "qq"}


def ren_path(rel, m):
    parts = rel.split("/")
    out = []
    for p in parts:
        stem, ext = (p[:-3], ".py") if p.endswith(".py") else (p, "")
        out.append(m.get(stem, stem) + ext)
    return "/".join(out)


def ren_fact(f, m):
    if f[0] == "import":
        return ("import", rename(f[1], m))
    if f[0] == "from":
        return ("from", rename(f[1], m), tuple(m.get(n, n) for n in f[2]))
    return ("rel", f[1], rename(f[2], m) if f[2] else "", tuple(m.get(n, n) for n in f[3]))


def scan_tree_part(entries, res):
    return _scan_tree_part(entries, res, SCAN_MAP) + _scan_tree_part(entries, res, SCAN_MAP_PY)


def _scan_tree_part(entries, res, SCAN_MAP):
    viol = []
    files, dirs = c04_materialise(entries)
    files2 = {ren_path(rel, SCAN_MAP): [ren_fact(f, SCAN_MAP) for f in fs] for rel, fs in files.items()}
    dirs2 = {ren_path(d, SCAN_MAP) for d in dirs}
    base = scratch_dir(f"c14-{abs(hash(str(sorted(entries.items())))) % 10**9}")
    try:
        b1, b2 = os.path.join(base, "one"), os.path.join(base, "two")
        write_tree(b1, {rel: source(fs) for rel, fs in files.items()}, dirs)
        write_tree(b2, {rel: source(fs) for rel, fs in files2.items()}, dirs2)
        for d in sorted(dirs):
            o1 = call(lambda: observed(scan(os.path.join(b1, "top"), os.path.join(b1, d))))
            o2 = call(lambda: observed(scan(os.path.join(b2, "rt"), os.path.join(b2, ren_path(d, SCAN_MAP)))))
            if res is not None:
                res.states += 1
                res.transitions += 2
                res.traces += 1
                res.stats["scans"] += 1
                res.nontrivial += 1
            if o1[0] != "OK" or o2[0] != "OK":
                if o1[0] != o2[0]:
                    viol.append(("scan-result-changes-under-renaming", {"part": "scan", "entries": entries, "module_path": d}, str(o1[:2])[:200], str(o2[:2])[:200]))
                continue
            im = inv(SCAN_MAP)
            back = (sorted(rename(x, im) for x in o2[1][0]), sorted((rename(a, im), rename(b, im)) for a, b in o2[1][1]),
                    sorted((rename(a, im), rename(b, im)) for a, b in o2[1][2]))
            orig = (sorted(o1[1][0]), sorted(o1[1][1]), sorted(o1[1][2]))
            if back != orig:
                viol.append(("scan-result-changes-under-renaming", {"part": "scan", "entries": entries, "module_path": d}, _j(orig), _j(back)))
    finally:
        remove_scratch(base)
    return viol


EXT_LAYOUT = {
    "top/__init__.py": [], "top/proj/__init__.py": [], "top/proj/a.py": [], "top/proj/handlers.py": [],
    "top/proj/sub/__init__.py": [], "top/proj/sub/m.py": [], "top/proj/subx/__init__.py": [], "top/proj/subx/m.py": [],
}
EXT_STATEMENTS = [("import", "os"), ("import", "sos"), ("import", "handlers"), ("import", "topx.m"), ("import", "top.proj.subx.m"), ("import", "top.proj.handlers"),
                  ("from", "top.proj", ("handlers",)), ("import", "x.y.z"), ("rel", 1, "", ("handlers",)), ("import", "proj.subx")]
EXT_MAP = {"sos": "zeta", "top": "rt", "proj": "pj", "sub": "sb", "subx": "elsewhere", "handlers": "hd", "topx": "tother", "m": "mm", "a": "aa"}


# a package directly below the root whose name starts with the root's name, scanned as module_path,
# with imports spelled relative to module_path's parent (src layout)
EXT_LAYOUT2 = {"top/__init__.py": [], "top/topx/__init__.py": [], "top/topx/m.py": [], "top/topx/n.py": [], "top/topx/deep/__init__.py": [], "top/topx/deep/o.py": []}
EXT_STATEMENTS2 = [("import", "topx.m"), ("from", "topx", ("m",)), ("import", "top.topx.m"), ("import", "topx.deep.o"), ("from", "topx.deep", ("o",)), ("import", "os")]


def externals_part(res):
    viol = []
    base = scratch_dir("c14-ext")
    try:
        for importer, layout, statements, mps in (
            ("top/proj/a.py", EXT_LAYOUT, EXT_STATEMENTS, ("top", "top/proj", "top/proj/sub")),
            ("top/proj/sub/m.py", EXT_LAYOUT, EXT_STATEMENTS, ("top", "top/proj", "top/proj/sub")),
            ("top/topx/n.py", EXT_LAYOUT2, EXT_STATEMENTS2, ("top", "top/topx")),
        ):
            for r in (1, 2):
                for combo in itertools.combinations(statements, r):
                    files = dict(layout)
                    files[importer] = list(combo)
                    files2 = {ren_path(rel, EXT_MAP): [ren_fact(f, EXT_MAP) for f in fs] for rel, fs in files.items()}
                    b1, b2 = os.path.join(base, "one"), os.path.join(base, "two")
                    write_tree(b1, {rel: source(fs) for rel, fs in files.items()})
                    write_tree(b2, {rel: source(fs) for rel, fs in files2.items()})
                    for mp in mps:
                        if not importer.startswith(mp + "/"):
                            continue
                        ext_names = ["os", "handlers", "topx", "x.y", "top.proj.subx"]
                        for opts in [{}, {"exclude_external_libraries": False}] + [
                            {"exclude_external_libraries": False, "external_exclusions": (n,)} for n in ext_names]:
                            opts2 = dict(opts)
                            if "external_exclusions" in opts:
                                opts2["external_exclusions"] = tuple(rename(n, EXT_MAP) for n in opts["external_exclusions"])
                            o1 = call(lambda: observed(scan(os.path.join(b1, "top"), os.path.join(b1, mp), **opts)))
                            o2 = call(lambda: observed(scan(os.path.join(b2, "rt"), os.path.join(b2, ren_path(mp, EXT_MAP)), **opts2)))
                            if res is not None:
                                res.states += 1
                                res.transitions += 2
                                res.traces += 1
                                res.stats["externals"] += 1
                                res.nontrivial += 1
                            case = {"part": "externals", "importer": importer, "statements": [list(s) for s in combo], "module_path": mp,
                                    "options": {k: list(v) if isinstance(v, tuple) else v for k, v in opts.items()}}
                            if o1[0] != "OK" or o2[0] != "OK":
                                if o1[0] != o2[0]:
                                    viol.append(("scan-result-changes-under-renaming", case, str(o1[:2])[:200], str(o2[:2])[:200]))
                                continue
                            im = inv(EXT_MAP)
                            back = (sorted(rename(x, im) for x in o2[1][0]), sorted((rename(a, im), rename(b, im)) for a, b in o2[1][1]))
                            orig = (sorted(o1[1][0]), sorted(o1[1][1]))
                            if back != orig:
                                viol.append(("scan-result-changes-under-renaming", case, _j(orig), _j(back)))
    finally:
        remove_scratch(base)
    return viol


# ------------------------------------------------------------------------ (6) diagram rules


def norm_diagram_outcome(got, im):
    if got[0] != "FAIL":
        return (got[0], got[1].split(":")[0] if got[0] == "ERR" else "")
    try:
        real, miss = parse_rule_message(got[1], True)
        real = sorted((rename(a, im), rename(b, im)) for a, b in real)
        miss = sorted(((k[0], rename(k[1], im), k[2]), tuple(sorted((q, rename(o, im)) for q, o in v))) for k, v in miss.items())
        return ("FAIL", real, miss)
    except Unparsable:
        import re as _re

        return ("FAIL", sorted(_re.sub(r'"([^"]+)"', lambda mm: '"' + rename(mm.group(1), im) + '"', line) for line in got[1].split("\n")))


def diagrams_part(ns, I, seed, res, base_dir, only=None):
    """DiagramRule verdicts and messages under renaming: the same diagram (components renamed
    accordingly), both naming options, both modes."""
    from . import c07

    viol = []
    files = c07.Files(base_dir)
    ev0 = build(ns, I, seed)
    evs = {}
    for rn in RENAMINGS:
        if rn == "hyphen":
            continue  # component names in a diagram are identifiers or dotted module names (documented subset)
        m = NAMING_MAPS[rn]
        evs[rn] = (m, build([rename(n, m) for n in ns], [(rename(a, m), rename(b, m)) for a, b in I], seed))

    def run(comps, base_mod, arrows, so, m):
        outs = {}
        rc = [rename(c, m) for c in comps]
        ra = [(rename(a, m), rename(b, m)) for a, b in arrows]
        r = c07.DiagramRule(should_only_rule=so).from_file(files.path(c07.diagram_text(rc, ra))).base_module_included_in_module_names()
        outs["dotted"] = r
        if base_mod is not None:
            rb = rename(base_mod, m)
            short = {c: c[len(rb) + 1 :] for c in rc}
            r2 = c07.DiagramRule(should_only_rule=so).from_file(files.path(c07.diagram_text([short[c] for c in rc], [(short[a], short[b]) for a, b in ra]))).with_base_module(rb)
            outs["short"] = r2
        return outs

    for comps, base_mod in c07.component_sets(ns):
        for arrows in c07.arrow_relations(comps):
            for so in (True, False):
                key = [list(comps), base_mod, [list(a) for a in arrows], so]
                if only is not None and only != key:
                    continue
                base = {k: norm_diagram_outcome(run_rule(r, ev0), {}) for k, r in run(comps, base_mod, arrows, so, {}).items()}
                for rn, (m, ev2) in evs.items():
                    for k, r in run(comps, base_mod, arrows, so, m).items():
                        got = norm_diagram_outcome(run_rule(r, ev2), inv(m))
                        if res is not None:
                            res.transitions += 2
                            res.evaluations += 1
                            res.traces += 1
                            res.nontrivial += 1
                            res.stats[f"diagrams:{base[k][0]}"] += 1
                        if got != base[k]:
                            viol.append(("diagram-rule-result-changes-under-renaming",
                                         {"part": "diagrams", "modules": ns, "imports": I, "key": key, "naming_option": k, "renaming": rn, "seed": seed},
                                         _j(base[k]), _j(got)))
    return viol


# ------------------------------------------------------------------------------ plan / run


def plan(tier, seed):
    global RENAMINGS
    shards = []
    gs = plan_graph_shards("A", n_max=4, chunk=8) if tier == "quick" else plan_graph_shards("A", n_max=5, chunk=32)
    if tier == "quick":
        gs += plan_graph_shards("B", n_max=5, n_min=5, k=1, parts=2)
    else:
        gs += plan_graph_shards("B", n_max=6, n_min=6, k=2, parts=8)
    gs += plan_graph_shards("B", k=1 if tier == "quick" else 2, parts=8, tree_list=[T7])
    for s in gs:
        shards.append(dict(s, part="rules", bound="module rules " + s["bound"], tier=tier))
        shards.append(dict(s, part="layers", bound="layer rules " + s["bound"], tier=tier))
    for s in plan_graph_shards("A", n_max=4, chunk=8 if tier == "quick" else 4):
        shards.append(dict(s, part="diagrams", bound="diagram rules " + s["bound"], tier=tier))
    for n in range(2, (5 if tier == "quick" else 6)):
        for t in trees(n):
            shards.append({"part": "labels", "tree": t, "k": 2, "bound": "plot labels", "tier": tier})
    ts = tree_space(3 if tier == "quick" else 4)
    step = 30
    for lo in range(0, len(ts), step):
        shards.append({"part": "scan", "lo": lo, "hi": lo + step, "n": 3 if tier == "quick" else 4, "bound": "tree scans", "tier": tier})
    shards.append({"part": "externals", "bound": "externals layout", "tier": tier})
    return {"shards": shards, "require_nonzero": ["rules:PASS", "rules:FAIL", "layers:PASS", "layers:FAIL", "labels", "scans", "externals", "diagrams:PASS", "diagrams:FAIL"]}


def _tuplify(t):
    return tuple(_tuplify(c) for c in t)


def run_shard(shard, tier, seed):
    global RENAMINGS
    # collision-free control naming: 'lengths' (components of 1-12 characters) in the quick tier, 'plain' in addition in the thorough one
    RENAMINGS = ["lengths", "adversarial", "adversarial2", "adversarial3", "hyphen", "case", "case2"] + (["plain", "unicode"] if shard.get("tier") == "thorough" else [])
    res = Result(shard["bound"])
    part = shard["part"]
    if part in ("rules", "layers"):
        for ns, I in shard_graphs(shard, seed):
            res.states += 1
            fn = rules_part if part == "rules" else layers_part
            for kind, case, exp, got in fn(ns, I, seed, res):
                res.violation(kind, case, exp, got)
            if res.states == 1 and I:
                res.sample({"modules": ns, "imports": I, "renamings": {rn: [rename(n, NAMING_MAPS[rn]) for n in ns] for rn in RENAMINGS}})
    elif part == "diagrams":
        from ..common import remove_scratch, scratch_dir

        base_dir = scratch_dir(f"c14-diag-{shard.get('lo', 0)}-{abs(hash(str(shard['tree']))) % 10**6}")
        try:
            for ns, I in shard_graphs(shard, seed):
                res.states += 1
                for kind, case, exp, got in diagrams_part(ns, I, seed, res, base_dir):
                    res.violation(kind, case, exp, got)
        finally:
            remove_scratch(base_dir)
    elif part == "labels":
        ns = nodes(_tuplify(shard["tree"]))
        res.states += 1
        for kind, case, exp, got in labels_part(ns, res, shard["k"]):
            res.violation(kind, case, exp, got)
    elif part == "scan":
        from .c04 import FEATURE_TREES

        ts = tree_space(shard["n"])[shard["lo"] : shard["hi"]]
        if shard["lo"] == 0:
            ts = ts + FEATURE_TREES[:2]
        for entries in ts:
            for kind, case, exp, got in scan_tree_part(entries, res):
                res.violation(kind, case, exp, got)
    else:
        for kind, case, exp, got in externals_part(res):
            res.violation(kind, case, exp, got)
    return res


def _check_case(case):
    part = case["part"]
    if part == "rules":
        v = rules_part(case["modules"], [tuple(e) for e in case["imports"]], case.get("seed", 0), None, only=case["rule"])
        v = [x for x in v if x[1]["renaming"] == case["renaming"]]
    elif part == "layers":
        v = layers_part(case["modules"], [tuple(e) for e in case["imports"]], case.get("seed", 0), None, only=[case["layers"], case["rule"]])
        v = [x for x in v if x[1]["renaming"] == case["renaming"]]
    elif part == "diagrams":
        from ..common import remove_scratch, scratch_dir

        base_dir = scratch_dir("c14-diag-replay")
        try:
            v = diagrams_part(case["modules"], [tuple(e) for e in case["imports"]], case.get("seed", 0), None, base_dir, only=case["key"])
        finally:
            remove_scratch(base_dir)
        v = [x for x in v if x[1]["renaming"] == case["renaming"] and x[1]["naming_option"] == case["naming_option"]]
    elif part == "labels":
        r = c17.check(case["modules"], [], case["aliases"], None, {}, None)
        return ("plot-label-ignores-dotted-boundaries", r[1], r[2]) if r else None
    elif part == "scan":
        v = [x for x in scan_tree_part(case["entries"], None) if x[1]["module_path"] == case["module_path"]]
    else:
        v = [x for x in externals_part(None) if x[1] == case]
    return (v[0][0], v[0][2], v[0][3]) if v else None


def minimise(v):
    case = dict(v["case"])
    if case["part"] in ("rules", "layers"):
        changed = True
        while changed:
            changed = False
            for e in list(case["imports"]):
                trial = dict(case, imports=[x for x in case["imports"] if x != e])
                r = _check_case(trial)
                if r and r[0] == v["kind"]:
                    case, changed = trial, True
        r = _check_case(case)
        v = dict(v, case=case, expected=r[1], observed=r[2])
        rs = case["rule"]
        shape = "anything" if rs.get("anything") else f"{rs['verb']}/{rs['exc']}"
        v["signature"] = f"{v['kind']}:{case['renaming']}:{shape}:edges{len(case['imports'])}"
    else:
        v = dict(v)
        v["signature"] = f"{v['kind']}:{case['part']}:{case.get('renaming', case.get('module_path', ''))}"
    return v


def replay(rec):
    r = _check_case(rec["case"])
    if r:
        return [{"kind": r[0], "case": rec["case"], "expected": r[1], "observed": r[2]}]
    return []
