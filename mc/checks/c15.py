"""C15 - evaluation is pure and independent of order, history and hash seed (E1 + E2 + E3).

Parts (one shard kind each):

  hist-ev     one evaluable shared by fresh rule objects: explicit-state BFS over histories
              "evaluate rule i", state = canonical form of the evaluable's complete attribute
              state + process-wide state; every transition's (verdict, message) must equal the
              result of the same rule on a fresh evaluable; the graph snapshot must never change.
              Validation of the abstraction without dedup: one long history (every rule of the
              pool, forwards then backwards) and, on the small sub-space, every ordered pair.
  hist-rule   one rule object shared by a pool of evaluables with different module sets: BFS over
              histories "apply to evaluable j", state = canonical form of the rule object; plus
              every ordered pair / triple of evaluables without dedup.
  hist-mixed  a pool of shared module rules, layer rules (sharing one LayeredArchitecture with a
              regex layer) and diagram rules x shared evaluables: BFS to the fixpoint over
              "apply rule i to evaluable j" + every history up to a length bound without dedup.
  perm        every permutation of subject lists, object lists, layer definition order, module
              order inside a layer, object-layer lists.
  scan-order  every permutation of the directory entries at every directory (Path.iterdir is the
              only enumeration call site and is replaced by a scheduler), exclusion-tuple and
              external-exclusion-tuple orders, and a second scan of the same tree.
  seeds       the same battery in fresh interpreters under different PYTHONHASHSEED values.
"""

from __future__ import annotations

import hashlib
import importlib
import itertools
import json
import os
import pathlib
import pkgutil
import subprocess
import sys

from ..common import ERR, FAIL, PASS, PTA_SRC, VERIF_DIR, graph_snapshot, remove_scratch, scratch_dir, write_tree
from ..common import run_rule as _run_rule
from ..e2 import generic_canon
from ..engine import Result
from ..impl import ACCESS_METHOD, IMPORT_METHOD, build, plan_graph_shards, shard_graphs
from ..scan import observed, scan
from ..scanmodel import all_dirs, source
from ..spaces import NAMINGS, SHAPES, nodes, rename, trees
from .c04 import materialise
from .c05 import layer_defs, layer_rule_specs, layerings
from .c08 import tree_space

import pytestarch  # noqa: E402
from pytestarch import DiagramRule, LayeredArchitecture, LayerRule, Rule  # noqa: E402

for _m in pkgutil.walk_packages(pytestarch.__path__, "pytestarch."):
    importlib.import_module(_m.name)

from ..hidden import GlobalState  # noqa: E402

def run_rule(rule, evaluable):
    """(PASS, '') | (FAIL, full message) | (ERR, exception type): the property speaks about verdict
    and message; for configuration / lookup errors only the type is compared (their text may
    legitimately list things in an unspecified order)."""
    g = _run_rule(rule, evaluable)
    return g if g[0] != ERR else (ERR, g[1].split(":")[0])


ID = "C15"
RULE = (
    "six exhaustive explorations (see the module docstring of mc/checks/c15.py): (1) BFS with "
    "canonical-state dedup over rule-evaluation histories on a shared evaluable for every "
    "architecture of the bound x the full rule pool (1-2 subjects/objects, related modules "
    "included, both filter kinds, 12 shapes + aliases), every result compared with the fresh "
    "result, graph snapshot compared after every evaluation, plus no-dedup long histories and all "
    "ordered pairs on the small sub-space; (2) BFS over re-application histories of every shared "
    "rule object (name, sub-module, regex, alias) over a pool of evaluables with different module "
    "sets, plus all pairs/triples without dedup; (3) BFS to the fixpoint over a mixed pool of "
    "shared module / layer / diagram rules and shared evaluables, plus all histories up to the "
    "length bound; (4) all permutations of subject, object, layer, layer-module and object-layer "
    "lists; (5) all permutations of directory enumeration order at every directory, of exclusion "
    "tuples, and repeated scans; (6) one battery per hash seed in fresh interpreters, digests "
    "compared case by case. A case is one evaluation/scan compared with its reference result; "
    "non-trivial = it follows at least one other evaluation, or uses a non-identity order / seed"
)
ASSUMPTIONS = [
    "history independence is judged on (verdict, full message text or error type+text) against the result of the same specification built afresh on a freshly built evaluable in the same process",
    "purity is judged on the observable graph (modules, import and hierarchy edges); internal caches are allowed and only widen the explored state space",
    "the dedup state is the canonical form of every attribute of the shared objects plus all module/class level mutable containers of the loaded pytestarch modules (mc/hidden.py); a non-empty functools cache makes a state opaque (never merged); the no-dedup passes validate this abstraction",
    "pathlib.Path.iterdir is the only directory enumeration used by the scanner (asserted by counting calls of the replaced function)",
    "hash seeds: only the enumerated seeds are covered",
]

MAX_HIDDEN_STATES = 24  # per explored graph / rule object: beyond this the BFS stops widening (reported as a cap)
HIST_DEPTH = 3  # cap for BFS over hidden states (only reached if the implementation keeps growing state)


# ----------------------------------------------------------------------------- rule pool


def filt(rule, kind, val):
    if kind == "named":
        return rule.are_named(val)
    if kind == "sub":
        return rule.are_sub_modules_of(val)
    if kind == "regex":
        return rule.have_name_matching(val)
    if kind == "glob":
        return rule.have_name_containing(val)
    raise ValueError(kind)


def mk(spec):
    """Real Rule from a spec; list arguments are passed in exactly the given order."""
    r = Rule().modules_that()
    s = spec["subj"]
    r = filt(r, spec["sk"], list(s) if isinstance(s, (list, tuple)) else s)
    r = getattr(r, spec["verb"])()
    if spec.get("anything"):
        return r.import_anything() if spec["imp"] else r.be_imported_by_anything()
    r = getattr(r, IMPORT_METHOD[(spec["imp"], spec["exc"])])()
    o = spec["obj"]
    return filt(r, spec["ok"], list(o) if isinstance(o, (list, tuple)) else o)


def pool_specs(ns, max_s=2, max_o=2, single_only=False):
    """Rule pool over the non-root modules of ns, related subject/object choices included."""
    cand = list(ns[1:])
    out = []
    subj_sets = [c for k in range(1, (1 if single_only else max_s) + 1) for c in itertools.combinations(cand, k)]
    obj_sets = [c for k in range(1, (1 if single_only else max_o) + 1) for c in itertools.combinations(cand, k)]
    for s in subj_sets:
        for o in obj_sets:
            if set(s) & set(o):
                continue
            for sk in ("named", "sub"):
                for ok in ("named", "sub"):
                    for verb, imp, exc in SHAPES:
                        out.append(dict(verb=verb, imp=imp, exc=exc, sk=sk, subj=list(s), ok=ok, obj=list(o)))
        for sk in ("named", "sub"):
            for imp in (True, False):
                out.append(dict(verb="should_not", imp=imp, exc=False, sk=sk, subj=list(s), ok=None, obj=None, anything=True))
    return out


def regex_specs(ns):
    """Rules with regex filters whose match sets differ between evaluables of the pool."""
    pats = [r"r\.a.*", r".*\.a$", r"r\.[ab]$", r"r\.b(\..*)?$"]
    names = [n for n in ns[1:3]]
    out = []
    for p in pats:
        for verb, imp, exc in SHAPES:
            for n in names:
                out.append(dict(verb=verb, imp=imp, exc=exc, sk="regex", subj=p, ok="named", obj=[n]))
                out.append(dict(verb=verb, imp=imp, exc=exc, sk="named", subj=[n], ok="regex", obj=p))
        out.append(dict(verb="should_not", imp=True, exc=False, sk="regex", subj=p, ok=None, obj=None, anything=True))
    return out


def fresh_result(ns, I, spec, seed=0):
    return run_rule(mk(spec), build(ns, I, seed))


# ------------------------------------------------------------------- part hist-ev


def hist_ev_graph(ns, I, pool, res, seed, pairs):
    """BFS over evaluation histories on one shared evaluable. Returns violations."""
    viol = []
    gs = GlobalState()
    snap0 = graph_snapshot(build(ns, I, seed))
    fresh = []
    states = {}

    def state_of(ev):
        return (generic_canon(ev), gs.canon())

    gs.reset()
    s0 = state_of(build(ns, I, seed))
    states[s0] = ()
    frontier = []
    # depth 1: this *is* the fresh result; record which rules leave a new hidden state behind
    for i, spec in enumerate(pool):
        gs.reset()
        ev = build(ns, I, seed)
        out = run_rule(mk(spec), ev)
        fresh.append(out)
        res.transitions += 1
        res.evaluations += 1
        res.stats[f"fresh:{out[0]}"] += 1
        if graph_snapshot(ev) != snap0:
            viol.append(("evaluation-changed-the-architecture", {"history": [spec]}, _snapjs(snap0), _snapjs(graph_snapshot(ev))))
        st = state_of(ev)
        if st not in states:
            states[st] = (i,)
            if len(states) <= MAX_HIDDEN_STATES:
                frontier.append((i,))
            else:
                res.extra["hidden_state_cap_hit"] = 1
    # deeper levels: only from states not seen before (identical state => identical futures)
    while frontier and not viol:
        hist = frontier.pop(0)
        for i, spec in enumerate(pool):
            gs.reset()
            ev = build(ns, I, seed)
            for j in hist:
                run_rule(mk(pool[j]), ev)
            out = run_rule(mk(spec), ev)
            res.transitions += 1 + len(hist)
            res.evaluations += 1
            res.traces += 1
            res.nontrivial += 1
            res.stats["after-history:" + ("same" if out == fresh[i] else "DIFFERENT")] += 1
            if out != fresh[i]:
                viol.append(("result-depends-on-rules-evaluated-before", {"history": [pool[j] for j in hist] + [spec]}, list(fresh[i]), list(out)))
                continue
            if graph_snapshot(ev) != snap0:
                viol.append(("evaluation-changed-the-architecture", {"history": [pool[j] for j in hist] + [spec]}, _snapjs(snap0), _snapjs(graph_snapshot(ev))))
                continue
            st = state_of(ev)
            if st not in states:
                states[st] = hist + (i,)
                if len(states) > MAX_HIDDEN_STATES:
                    res.extra["hidden_state_cap_hit"] = 1
                elif len(hist) + 1 < HIST_DEPTH:
                    frontier.append(hist + (i,))
                else:
                    res.extra["hist_depth_cap_hit"] = 1
    res.states += len(states)
    res.stats["hidden-states"] += len(states) - 1
    # validation without dedup (a): one long history, forwards then backwards
    gs.reset()
    ev = build(ns, I, seed)
    order = list(range(len(pool))) + list(reversed(range(len(pool))))
    for pos, i in enumerate(order):
        out = run_rule(mk(pool[i]), ev)
        res.transitions += 1
        res.evaluations += 1
        res.traces += 1
        res.nontrivial += 1
        if out != fresh[i]:
            viol.append(("result-depends-on-rules-evaluated-before",
                         {"history": [pool[j] for j in order[: pos + 1]], "note": "long history without dedup"}, list(fresh[i]), list(out)))
            break
    if graph_snapshot(ev) != snap0:
        viol.append(("evaluation-changed-the-architecture", {"history": [pool[j] for j in order]}, _snapjs(snap0), _snapjs(graph_snapshot(ev))))
    res.stats["long-history"] += 1
    # validation without dedup (b): every ordered pair, each from a fresh evaluable
    if pairs:
        for i, s1 in enumerate(pool):
            for j, s2 in enumerate(pool):
                gs.reset()
                ev = build(ns, I, seed)
                run_rule(mk(s1), ev)
                out = run_rule(mk(s2), ev)
                res.transitions += 2
                res.evaluations += 1
                res.traces += 1
                res.nontrivial += 1
                if out != fresh[j]:
                    viol.append(("result-depends-on-rules-evaluated-before", {"history": [s1, s2], "note": "pair without dedup"}, list(fresh[j]), list(out)))
        res.stats["all-pairs"] += 1
    gs.reset()
    _note_new_globals(gs, res)
    return viol


def _note_new_globals(gs, res):
    """Module/class level containers created after the snapshot are not part of the dedup state:
    report them (the run then does not claim a complete state abstraction)."""
    nl = gs.new_locations()
    if nl:
        res.extra["new_global_locations"] = nl


def _snapjs(s):
    return {"modules": list(s[0]), "edges": [list(e) for e in s[1]]}


def replay_hist_ev(case):
    ns, I = case["modules"], [tuple(e) for e in case["imports"]]
    hist = case["history"]
    seed = case.get("seed", 0)
    snap0 = graph_snapshot(build(ns, I, seed))
    want = fresh_result(ns, I, hist[-1], seed)
    ev = build(ns, I, seed)
    for s in hist[:-1]:
        run_rule(mk(s), ev)
    out = run_rule(mk(hist[-1]), ev)
    if out != want:
        return ("result-depends-on-rules-evaluated-before", list(want), list(out))
    if graph_snapshot(ev) != snap0:
        return ("evaluation-changed-the-architecture", _snapjs(snap0), _snapjs(graph_snapshot(ev)))
    return None


def minimise_hist(case, kind, replay_fn):
    """Greedy: drop history elements (never the last) while the same kind of violation stays."""
    hist = list(case["history"])
    changed = True
    while changed and len(hist) > 1:
        changed = False
        for k in range(len(hist) - 1):
            trial = dict(case, history=hist[:k] + hist[k + 1 :])
            r = replay_fn(trial)
            if r and r[0] == kind:
                hist = trial["history"]
                changed = True
                break
    return dict(case, history=hist)


# ------------------------------------------------------------------ part hist-rule


def evaluable_pool(tier):
    """Evaluables with different module sets and import relations (names overlap on purpose)."""
    out = []
    tl = [t for n in (3, 4) for t in trees(n)]
    for t in tl:
        ns = nodes(t)
        lv = [x for x in ns if not any(y.startswith(x + ".") for y in ns)]
        cands = [(u, v) for u in lv for v in ns[1:] if u != v and not u.startswith(v + ".")]
        out.append((ns, []))
        for e in cands:
            out.append((ns, [e]))
        if tier == "thorough":
            for e2 in itertools.combinations(cands, 2):
                out.append((ns, list(e2)))
    return out


def rule_pool_for_reapply():
    names = nodes(trees(4)[0])  # just to have a deterministic name universe
    universe = sorted({n for t in list(trees(3)) + list(trees(4)) for n in nodes(t)})
    core = [n for n in universe if n != "r"]
    specs = []
    # single subject / single object over the whole universe (some modules are missing in some evaluables)
    for s in core:
        for o in core:
            if s == o:
                continue
            for sk in ("named", "sub"):
                for ok in ("named", "sub"):
                    for verb, imp, exc in SHAPES:
                        specs.append(dict(verb=verb, imp=imp, exc=exc, sk=sk, subj=[s], ok=ok, obj=[o]))
        for sk in ("named", "sub"):
            for imp in (True, False):
                specs.append(dict(verb="should_not", imp=imp, exc=False, sk=sk, subj=[s], ok=None, obj=None, anything=True))
    # alias rules with a module and its sub module as subjects (alias rewrite de-duplicates them)
    for subj in (["r.a", "r.a.a"], ["r.a.a", "r.a"], ["r.a", "r.b"], ["r.b.a", "r.b", "r.a"]):
        for imp in (True, False):
            specs.append(dict(verb="should_not", imp=imp, exc=False, sk="named", subj=subj, ok=None, obj=None, anything=True))
    specs += regex_specs(["r", "r.a", "r.b"])
    del names
    return specs


def hist_rule(spec, evs, res, seed, depth, plain_depth):
    """One shared rule object applied to the evaluables of the pool in every order."""
    viol = []
    gs = GlobalState()
    fresh = []
    for ns, I in evs:
        gs.reset()
        fresh.append(run_rule(mk(spec), build(ns, I, seed)))
        res.transitions += 1
        res.stats[f"fresh:{fresh[-1][0]}"] += 1

    def run_hist(hist):
        gs.reset()
        r = mk(spec)
        out = None
        for k in hist:
            out = run_rule(r, build(evs[k][0], evs[k][1], seed))
        return r, out

    r0 = mk(spec)
    states = {(generic_canon(r0), gs.canon()): ()}
    frontier = [()]
    while frontier and not viol:
        hist = frontier.pop(0)
        for k in range(len(evs)):
            r, out = run_hist(hist + (k,))
            res.transitions += len(hist) + 1
            res.evaluations += 1
            res.traces += 1
            if hist:
                res.nontrivial += 1
            res.stats["reapplied:" + ("same" if out == fresh[k] else "DIFFERENT")] += 1
            if out != fresh[k]:
                viol.append(("result-depends-on-earlier-applications-of-the-rule-object",
                             {"rule": spec, "evaluables": [_evjs(evs[j]) for j in hist + (k,)]}, list(fresh[k]), list(out)))
                continue
            st = (generic_canon(r), gs.canon())
            if st not in states:
                states[st] = hist + (k,)
                if len(states) > MAX_HIDDEN_STATES:
                    res.extra["hidden_state_cap_hit"] = 1
                elif len(hist) + 1 < depth:
                    frontier.append(hist + (k,))
                else:
                    res.extra["hist_depth_cap_hit"] = 1
    res.states += len(states)
    res.stats["rule-object-states"] += len(states)
    # without dedup: every ordered pair (and triple) of evaluables
    for d in range(2, plain_depth + 1):
        if viol:
            break
        for hist in itertools.product(range(len(evs)), repeat=d):
            r, out = run_hist(hist)
            res.transitions += d
            res.evaluations += 1
            res.traces += 1
            res.nontrivial += 1
            if out != fresh[hist[-1]]:
                viol.append(("result-depends-on-earlier-applications-of-the-rule-object",
                             {"rule": spec, "evaluables": [_evjs(evs[j]) for j in hist], "note": "no dedup"}, list(fresh[hist[-1]]), list(out)))
    gs.reset()
    _note_new_globals(gs, res)
    return viol


def _evjs(e):
    return {"modules": list(e[0]), "imports": [list(x) for x in e[1]]}


def replay_hist_rule(case):
    spec = case["rule"]
    evs = [(e["modules"], [tuple(x) for x in e["imports"]]) for e in case["evaluables"]]
    want = run_rule(mk(spec), build(evs[-1][0], evs[-1][1], case.get("seed", 0)))
    r = mk(spec)
    out = None
    for ns, I in evs:
        out = run_rule(r, build(ns, I, case.get("seed", 0)))
    if out != want:
        return ("result-depends-on-earlier-applications-of-the-rule-object", list(want), list(out))
    return None


# ----------------------------------------------------------------- part hist-mixed

MIXED_POOLS = {
    "p1": {
        "evs": [
            (["r", "r.a", "r.b", "r.b.a", "r.c"], [("r.a", "r.b"), ("r.b.a", "r.c"), ("r.c", "r.a")]),
            (["r", "r.a", "r.a.a", "r.b", "r.c"], [("r.a.a", "r.b"), ("r.c", "r.a.a")]),
            (["r", "r.a", "r.b"], []),
        ],
        "layers": [("L1", ("regex", r"r\.a.*")), ("L2", ("names", ["r.b"])), ("L3", ("names", ["r.c"]))],
        "diagram": ("r", ["a", "b", "c"], [("a", "b"), ("c", "a")]),
    },
    "p2": {
        "evs": [
            (["r", "r.x", "r.xy", "r.x.y", "r.z"], [("r.x.y", "r.xy"), ("r.z", "r.x"), ("r.xy", "r.z")]),
            (["r", "r.x", "r.xy", "r.z", "r.z.x"], [("r.z.x", "r.x"), ("r.xy", "r.z")]),
        ],
        "layers": [("up", ("names", ["r.x", "r.xy"])), ("down", ("regex", r"r\.z(\..+)?$"))],
        "diagram": ("r", ["x", "xy", "z"], [("z", "x"), ("xy", "z")]),
    },
}


def mixed_objects(pool, base):
    """Fresh shared objects of a pool: list of (label, rule object)."""
    cfg = MIXED_POOLS[pool]
    names = cfg["evs"][0][0][1:]
    a, b = names[0], names[1]
    sub = names[2]
    last = names[-1]
    objs = []
    objs.append(("m-only-named", Rule().modules_that().are_named(a).should_only().import_modules_that().are_named(b)))
    objs.append(("m-only-sub", Rule().modules_that().are_named(a).should_only().import_modules_that().are_sub_modules_of(b)))
    objs.append(("m-not-except", Rule().modules_that().are_sub_modules_of(b).should_not().be_imported_by_modules_except_modules_that().are_named([a, last])))
    objs.append(("m-anything", Rule().modules_that().are_named([sub, b, a]).should_not().import_anything()))
    objs.append(("m-anything-imported", Rule().modules_that().are_named(last).should_not().be_imported_by_anything()))
    objs.append(("m-regex", Rule().modules_that().have_name_matching(r"r\.[a-z]\.[a-z]$").should().import_modules_that().have_name_matching(r"r\.[a-z]+$")))
    la = LayeredArchitecture()
    for name, (style, val) in cfg["layers"]:
        la = la.layer(name)
        la = la.containing_modules(val) if style == "names" else la.have_modules_with_names_matching(val)
    ln = [n for n, _ in cfg["layers"]]
    objs.append(("l-only", LayerRule().based_on(la).layers_that().are_named(ln[0]).should_only().access_layers_that().are_named(ln[1])))
    objs.append(("l-any", LayerRule().based_on(la).layers_that().are_named(ln[1]).should_not().access_any_layer()))
    objs.append(("l-except", LayerRule().based_on(la).layers_that().are_named(ln[-1]).should().be_accessed_by_layers_except_layers_that().are_named(ln[0])))
    bm, comps, arrows = cfg["diagram"]
    short = os.path.join(base, f"{pool}-short.puml")
    dotted = os.path.join(base, f"{pool}-dotted.puml")
    if not os.path.exists(short):
        with open(short, "w") as f:
            f.write("\n".join(["@startuml"] + [f"[{c}]" for c in comps] + [f"[{x}] --> [{y}]" for x, y in arrows] + ["@enduml", ""]))
        with open(dotted, "w") as f:
            f.write("\n".join(["@startuml"] + [f"[{bm}.{c}]" for c in comps] + [f"[{bm}.{x}] --> [{bm}.{y}]" for x, y in arrows] + ["@enduml", ""]))
    objs.append(("d-short", DiagramRule().from_file(pathlib.Path(short)).with_base_module(bm)))
    objs.append(("d-dotted", DiagramRule(should_only_rule=False).from_file(pathlib.Path(dotted)).base_module_included_in_module_names()))
    return objs, la


def mixed_run(pool, base, hist, seed):
    """Replay a history [(rule index, evaluable index)] on fresh shared objects.
    -> (objects, evaluables, layered architecture, outcomes)"""
    cfg = MIXED_POOLS[pool]
    objs, la = mixed_objects(pool, base)
    evs = [build(ns, I, seed) for ns, I in cfg["evs"]]
    outs = []
    for i, j in hist:
        outs.append(run_rule(objs[i][1], evs[j]))
    return objs, evs, la, outs


def hist_mixed(pool, base, res, seed, first_actions, plain_len, do_bfs):
    viol = []
    gs = GlobalState()
    cfg = MIXED_POOLS[pool]
    objs0, _ = mixed_objects(pool, base)
    n_r, n_e = len(objs0), len(cfg["evs"])
    actions = [(i, j) for i in range(n_r) for j in range(n_e)]
    fresh = {}
    snaps = [graph_snapshot(build(ns, I, seed)) for ns, I in cfg["evs"]]
    for a in actions:
        gs.reset()
        fresh[a] = mixed_run(pool, base, [a], seed)[3][0]
        res.transitions += 1
        res.stats[f"fresh:{fresh[a][0]}"] += 1

    def label(h):
        return [[objs0[i][0], j] for i, j in h]

    def check(hist):
        gs.reset()
        objs, evs, la, outs = mixed_run(pool, base, hist, seed)
        res.transitions += len(hist)
        res.evaluations += 1
        res.traces += 1
        if len(hist) > 1:
            res.nontrivial += 1
        a = hist[-1]
        if outs[-1] != fresh[a]:
            viol.append(("result-depends-on-evaluation-history", {"pool": pool, "history": label(hist)}, list(fresh[a]), list(outs[-1])))
            return None
        for j, ev in enumerate(evs):
            if graph_snapshot(ev) != snaps[j]:
                viol.append(("evaluation-changed-the-architecture", {"pool": pool, "history": label(hist)}, _snapjs(snaps[j]), _snapjs(graph_snapshot(ev))))
                return None
        return (generic_canon([o for _, o in objs]), generic_canon(la), generic_canon(evs), gs.canon())

    if do_bfs:
        gs.reset()
        objs, evs, la, _ = mixed_run(pool, base, [], seed)
        init = (generic_canon([o for _, o in objs]), generic_canon(la), generic_canon(evs), gs.canon())
        seen = {init}
        frontier = [()]
        deepest = 0
        while frontier and len(viol) < 5:
            hist = frontier.pop(0)
            for a in actions:
                st = check(list(hist) + [a])
                res.stats["bfs-transition"] += 1
                if st is None or st in seen:
                    continue
                seen.add(st)
                deepest = max(deepest, len(hist) + 1)
                if len(seen) > 600:
                    res.extra["hidden_state_cap_hit"] = 1
                elif len(hist) + 1 < 8:
                    frontier.append(hist + (a,))
                else:
                    res.extra["hist_depth_cap_hit"] = 1
        res.states += len(seen)
        res.stats["mixed-states"] += len(seen)
        res.extra["mixed_bfs_depth_" + pool] = deepest
    for a0 in first_actions:
        for d in range(1, plain_len):
            for rest in itertools.product(actions, repeat=d):
                if len(viol) >= 5:
                    break
                check([actions[a0]] + list(rest))
                res.stats["plain-history"] += 1
    gs.reset()
    _note_new_globals(gs, res)
    return viol, len(actions)


def replay_hist_mixed(case):
    base = scratch_dir("c15-replay-mixed")
    try:
        pool = case["pool"]
        objs0, _ = mixed_objects(pool, base)
        idx = {lab: i for i, (lab, _) in enumerate(objs0)}
        hist = [(idx[l], j) for l, j in case["history"]]
        seed = case.get("seed", 0)
        want = mixed_run(pool, base, [hist[-1]], seed)[3][0]
        objs, evs, la, outs = mixed_run(pool, base, hist, seed)
        if outs[-1] != want:
            return ("result-depends-on-evaluation-history", list(want), list(outs[-1]))
        for j, (ns, I) in enumerate(MIXED_POOLS[pool]["evs"]):
            s = graph_snapshot(build(ns, I, seed))
            if graph_snapshot(evs[j]) != s:
                return ("evaluation-changed-the-architecture", _snapjs(s), _snapjs(graph_snapshot(evs[j])))
        return None
    finally:
        remove_scratch(base)


# ------------------------------------------------------------------------ part perm


def perm_specs(ns):
    """Specs with at least one list of length >= 2 (related modules included)."""
    cand = list(ns[1:])
    out = []
    sets = [c for k in (1, 2, 3) for c in itertools.combinations(cand, k)]
    for s in sets:
        for o in sets:
            if set(s) & set(o) or (len(s) == 1 and len(o) == 1) or len(s) + len(o) > 4:
                continue
            for sk in ("named", "sub"):
                for ok in ("named", "sub"):
                    for verb, imp, exc in SHAPES:
                        out.append(dict(verb=verb, imp=imp, exc=exc, sk=sk, subj=list(s), ok=ok, obj=list(o)))
        if len(s) > 1:
            for sk in ("named", "sub"):
                for imp in (True, False):
                    out.append(dict(verb="should_not", imp=imp, exc=False, sk=sk, subj=list(s), ok=None, obj=None, anything=True))
    return out


def glob_batch_specs(ns):
    """Batches of partial names whose match sets overlap or nest (a later pattern may match nothing
    that an earlier one has not matched already): the listing order must not matter."""
    if len(ns) < 3:
        return []
    a, b = ns[1], ns[2]
    last = a.split(".")[-1]
    fams = [[a + "*", a], ["*" + last, a], ["*", b], [a, a + "*", "*" + last + "*"], [b, "*", a]]
    out = []
    for g in fams:
        for verb, imp, exc in SHAPES:
            out.append(dict(verb=verb, imp=imp, exc=exc, sk="glob", subj=list(g), ok="named", obj=[b]))
            out.append(dict(verb=verb, imp=imp, exc=exc, sk="named", subj=[b], ok="glob", obj=list(g)))
    return out


def check_perm(ns, I, spec, ev, res):
    base = run_rule(mk(spec), ev)
    sp = list(itertools.permutations(spec["subj"]))
    op = list(itertools.permutations(spec["obj"])) if spec.get("obj") else [None]
    for s in sp:
        for o in op:
            if list(s) == spec["subj"] and (o is None or list(o) == spec["obj"]):
                continue
            sp2 = dict(spec, subj=list(s), obj=list(o) if o is not None else None)
            got = run_rule(mk(sp2), ev)
            if res is not None:
                res.transitions += 1
                res.evaluations += 1
                res.traces += 1
                res.nontrivial += 1
                res.stats[f"perm:{base[0]}"] += 1
            if got != base:
                return ("result-depends-on-listing-order", {"rule": spec, "permuted": sp2}, list(base), list(got))
    return None


def mk_la(defs):
    la = LayeredArchitecture()
    for name, (style, val) in defs:
        la = la.layer(name)
        la = la.containing_modules(list(val)) if style == "names" else la.have_modules_with_names_matching(val)
    return la


def mk_lr(la, spec):
    r = LayerRule().based_on(la).layers_that().are_named(spec["subj"])
    r = getattr(r, spec["verb"])()
    if spec.get("anything"):
        return r.access_any_layer() if spec["imp"] else r.be_accessed_by_any_layer()
    r = getattr(r, ACCESS_METHOD[(spec["imp"], spec["exc"])])()
    o = spec["obj"]
    return r.are_named(list(o) if len(o) > 1 else o[0])


def check_layer_perm(ns, I, layers, style, spec, ev, res):
    defs = layer_defs(layers, style)
    base = run_rule(mk_lr(mk_la(defs), spec), ev)
    variants = []
    for dp in itertools.permutations(defs):
        # reverse the module order inside every named layer for odd permutations as well
        for rev in (False, True):
            d2 = [(n, (st, list(reversed(v)) if (rev and st == "names") else v)) for n, (st, v) in dp]
            for o in (itertools.permutations(spec["obj"]) if spec.get("obj") else [None]):
                variants.append((d2, list(o) if o is not None else None))
    for d2, o in variants[1:]:
        sp2 = dict(spec, obj=o)
        got = run_rule(mk_lr(mk_la(d2), sp2), ev)
        if res is not None:
            res.transitions += 1
            res.evaluations += 1
            res.traces += 1
            res.nontrivial += 1
            res.stats[f"layer-perm:{base[0]}"] += 1
        if got != base:
            return ("layer-rule-result-depends-on-listing-order",
                    {"layers": layers, "style": style, "rule": spec, "definition_order": [n for n, _ in d2],
                     "definitions": [[n, list(x)] for n, x in d2], "objects": o}, list(base), list(got))
    return None


# ------------------------------------------------------------------ part scan-order


class IterdirScheduler:
    """Replacement for pathlib.Path.iterdir: the order of every directory's entries is a choice
    point; choice 0 is the sorted order."""

    def __init__(self):
        self.orig = pathlib.Path.iterdir
        self.perm = {}  # directory path -> tuple of indices
        self.seen = {}  # directory path -> number of entries (recorded while scanning)
        self.calls = 0

    def __enter__(self):
        sched = self

        def iterdir(path):
            entries = sorted(sched.orig(path))
            sched.calls += 1
            key = str(path)
            sched.seen[key] = len(entries)
            p = sched.perm.get(key)
            if p is None:
                return iter(entries)
            if sorted(p) != list(range(len(entries))):
                raise RuntimeError(f"harness fault: schedule {p} does not fit {key} with {len(entries)} entries")
            return iter([entries[i] for i in p])

        pathlib.Path.iterdir = iterdir
        return self

    def __exit__(self, *a):
        pathlib.Path.iterdir = self.orig


def scan_obs(root, mp, **opts):
    try:
        ev = scan(root, mp, **opts)
        m, e, h = observed(ev)
        return ("OK", sorted(m), sorted(e), sorted(h))
    except Exception as ex:  # noqa: BLE001
        return ("ERR", type(ex).__name__, str(ex))


def check_scan_orders(entries, res, max_combos, tag):
    """All permutations at all directories (capped product -> reported), repeated scan."""
    viol = []
    files, dirs = materialise(entries)
    outer = scratch_dir(f"c15-{tag}")
    try:
        write_tree(outer, {rel: source(fs) for rel, fs in files.items()}, dirs)
        root = os.path.join(outer, "top")
        for mp_rel in sorted(all_dirs(files, dirs)):
            if mp_rel != "top" and mp_rel.count("/") > 1:
                continue
            mp = os.path.join(outer, mp_rel)
            with IterdirScheduler() as sch:
                base = scan_obs(root, mp)
                again = scan_obs(root, mp)
                res.transitions += 2
                res.evaluations += 1
                res.traces += 1
                res.stats["rescan"] += 1
                if again != base:
                    viol.append(("two-scans-of-the-same-tree-differ", {"entries": entries, "module_path": mp_rel}, base, again))
                    continue
                if sch.calls == 0:
                    raise RuntimeError("harness fault: Path.iterdir was not called by the scanner")
                choice_points = [(d, n) for d, n in sorted(sch.seen.items()) if n > 1]
                spaces = [list(itertools.permutations(range(n))) for _, n in choice_points]
                total = 1
                for s in spaces:
                    total *= len(s)
                if total > max_combos:
                    res.extra["order_combos_capped"] = 1
                    # deviation bound: at most two directories deviate from sorted order
                    combos = []
                    ident = [s[0] for s in spaces]
                    for a in range(len(spaces)):
                        for pa in spaces[a][1:]:
                            c = list(ident)
                            c[a] = pa
                            combos.append(tuple(c))
                            for b in range(a + 1, len(spaces)):
                                for pb in (spaces[b][-1],):
                                    c2 = list(c)
                                    c2[b] = pb
                                    combos.append(tuple(c2))
                else:
                    combos = list(itertools.product(*spaces))[1:] if spaces else []
                for combo in combos:
                    sch.perm = {d: p for (d, _), p in zip(choice_points, combo)}
                    got = scan_obs(root, mp)
                    res.transitions += 1
                    res.evaluations += 1
                    res.traces += 1
                    res.nontrivial += 1
                    res.states += 1
                    res.stats["dir-order"] += 1
                    if got != base:
                        viol.append(("scan-depends-on-directory-enumeration-order",
                                     {"entries": entries, "module_path": mp_rel,
                                      "order": {os.path.relpath(d, outer): list(p) for d, p in sch.perm.items()}}, base, got))
                        break
                sch.perm = {}
    finally:
        remove_scratch(outer)
    return viol


EXCL_TREE = {"a.py": "f", "ab.py": "f", "t": "d", "t/a.py": "f", "t/x.py": "f", "t/t.py": "f", "u": "d", "u/t": "d", "u/t/y.py": "f", "u/ab.py": "f"}
EXT_IMPORTS = {"top/a.py": [("import", "os.path"), ("import", "xlib.sub.m"), ("from", "ylib", ("z",))],
               "top/u/ab.py": [("import", "xlib.other"), ("import", "os")]}


def check_option_orders(res, tag):
    viol = []
    files, dirs = materialise(EXCL_TREE)
    for rel, facts in EXT_IMPORTS.items():
        files[rel] = list(files[rel]) + facts
    outer = scratch_dir(f"c15-{tag}")
    try:
        write_tree(outer, {rel: source(fs) for rel, fs in files.items()}, dirs)
        root = os.path.join(outer, "top")
        globs = ["*a.py", "*/t", "*ab.py", "*x.py", "*u*", "*nomatch*"]
        # the whole regex language is documented for regex_exclusions: groups, a back reference (a module file named
        # like its package), a named group, an inline flag - each pattern stands for itself wherever it is listed
        regexes = [r".*a\.py$", r".*/t$", r".*ab\.py", r".*/u(/.*)?$", r"nomatch", r".*/(\w+)/\1\.py$", r"(?i).*/T/X\.PY$", r".*/(?P<n>u)/(?P=n)?ab\.py$"]
        ext = ["os*", "xlib.sub*", "*lib", "*other", "ylib"]
        ext_re = [r"os.*", r"xlib\.sub.*", r".*lib$", r"ylib", r"(\w)lib\.o\1her$", r"(?i)OS\.PATH"]
        for key, pool, extra in (("exclusions", globs, {}), ("regex_exclusions", regexes, {}),
                                 ("external_exclusions", ext, {"exclude_external_libraries": False}),
                                 ("regex_external_exclusions", ext_re, {"exclude_external_libraries": False})):
            for k in (2, 3):
                for combo in itertools.combinations(pool, k):
                    base = scan_obs(root, root, **{key: tuple(combo)}, **extra)
                    for p in list(itertools.permutations(combo))[1:]:
                        got = scan_obs(root, root, **{key: tuple(p)}, **extra)
                        res.transitions += 1
                        res.evaluations += 1
                        res.traces += 1
                        res.nontrivial += 1
                        res.states += 1
                        res.stats[f"option-order:{key}"] += 1
                        if got != base:
                            viol.append(("scan-depends-on-order-of-exclusion-patterns", {"option": key, "patterns": list(p), "reference_order": list(combo)}, base, got))
    finally:
        remove_scratch(outer)
    return viol


def replay_scan_order(case):
    entries = case["entries"]
    files, dirs = materialise(entries)
    outer = scratch_dir("c15-replay-scan")
    try:
        write_tree(outer, {rel: source(fs) for rel, fs in files.items()}, dirs)
        root = os.path.join(outer, "top")
        mp = os.path.join(outer, case["module_path"])
        with IterdirScheduler() as sch:
            base = scan_obs(root, mp)
            sch.perm = {os.path.join(outer, d): tuple(p) for d, p in case.get("order", {}).items()}
            got = scan_obs(root, mp)
        if got != base:
            return ("scan-depends-on-directory-enumeration-order" if case.get("order") else "two-scans-of-the-same-tree-differ", base, got)
        return None
    finally:
        remove_scratch(outer)


# ----------------------------------------------------------------------- part seeds


def battery(tier):
    """Deterministic list of (case id, digest) computed in this interpreter."""
    out = []
    n_max = 4
    for n in range(2, n_max + 1):
        for ti, t in enumerate(trees(n)):
            for naming in ("identity", "adversarial", "caseonly"):
                m = NAMINGS[naming]
                ns0 = nodes(t)
                lv = [x for x in ns0 if not any(y.startswith(x + ".") for y in ns0)]
                cands = [(u, v) for u in lv for v in ns0[1:] if u != v]
                rels = [[]] + [[e] for e in cands] + ([list(c) for c in itertools.combinations(cands, 2)] if (tier == "thorough" or n < 4) else [])
                for ri, I0 in enumerate(rels):
                    ns = [rename(x, m) for x in ns0]
                    I = [(rename(a, m), rename(b, m)) for a, b in I0]
                    ev = build(ns, I, 0)
                    specs = pool_specs(ns) + (perm_specs(ns) if n <= 4 else [])
                    h = hashlib.sha1()
                    for spec in specs:
                        h.update(repr(run_rule(mk(spec), ev)).encode())
                    out.append((f"rules:{n}:{ti}:{naming}:{ri}", h.hexdigest()[:16]))
                    # layer rules
                    h = hashlib.sha1()
                    for layers in layerings(ns):
                        for style in ("names", "regex", "mixed"):
                            la_defs = layer_defs(layers, style)
                            for spec in layer_rule_specs(layers):
                                h.update(repr(run_rule(mk_lr(mk_la(la_defs), spec), ev)).encode())
                    out.append((f"layers:{n}:{ti}:{naming}:{ri}", h.hexdigest()[:16]))
                    out.append((f"graph:{n}:{ti}:{naming}:{ri}", hashlib.sha1(repr(graph_snapshot(ev)).encode()).hexdigest()[:16]))
    base = scratch_dir("c15-battery")
    try:
        for pool in MIXED_POOLS:
            objs, _ = mixed_objects(pool, base)
            cfg = MIXED_POOLS[pool]
            h = hashlib.sha1()
            for i in range(len(objs)):
                for j in range(len(cfg["evs"])):
                    h.update(repr(mixed_run(pool, base, [(i, j)], 0)[3][0]).encode())
            out.append((f"mixed:{pool}", h.hexdigest()[:16]))
        trees_ = [dict(EXCL_TREE)] + tree_space(3)[-40:]
        for k, entries in enumerate(trees_):
            files, dirs = materialise(entries)
            if k == 0:
                for rel, facts in EXT_IMPORTS.items():
                    files[rel] = list(files[rel]) + facts
            outer = os.path.join(base, f"t{k}")
            write_tree(outer, {rel: source(fs) for rel, fs in files.items()}, dirs)
            root = os.path.join(outer, "top")
            for opts in ({}, {"exclude_external_libraries": False}, {"level_limit": 1}):
                out.append((f"scan:{k}:{sorted(opts)}", hashlib.sha1(repr(scan_obs(root, root, **opts)).encode()).hexdigest()[:16]))
    finally:
        remove_scratch(base)
    return out


def battery_case(case_id, tier):
    """Recompute one battery case with full detail (used to explain a digest mismatch)."""
    return [d for c, d in battery(tier) if c == case_id]


def run_seeds(seeds, tier, res):
    viol = []
    procs = []
    for s in seeds:
        env = dict(os.environ, PYTHONHASHSEED=str(s), PTA_SRC=PTA_SRC)
        procs.append((s, subprocess.Popen([sys.executable, "-m", "mc.checks.c15", "--battery", tier], cwd=VERIF_DIR, env=env,
                                          stdout=subprocess.PIPE, stderr=subprocess.PIPE, text=True)))
    results = {}
    for s, p in procs:
        o, e = p.communicate()
        if p.returncode != 0:
            raise RuntimeError(f"harness fault: battery under PYTHONHASHSEED={s} failed: {e[-800:]}")
        results[s] = json.loads(o)
    ref_seed = seeds[0]
    ref = dict(results[ref_seed])
    res.states += len(seeds)
    for s in seeds:
        got = dict(results[s])
        res.transitions += len(got)
        res.evaluations += len(got)
        res.traces += len(got)
        if s != ref_seed:
            res.nontrivial += len(got)
        res.stats["seed-batteries"] += 1
        if set(got) != set(ref):
            raise RuntimeError("harness fault: batteries enumerate different cases")
        for c in ref:
            if got[c] != ref[c]:
                viol.append(("result-depends-on-hash-seed", {"battery_case": c, "seeds": [ref_seed, s], "tier": tier}, ref[c], got[c]))
                break
    res.extra["hash_seeds"] = list(seeds)
    return viol


def replay_seeds(case):
    seeds, tier = case["seeds"], case.get("tier", "quick")
    digests = []
    for s in seeds:
        env = dict(os.environ, PYTHONHASHSEED=str(s), PTA_SRC=PTA_SRC)
        p = subprocess.run([sys.executable, "-m", "mc.checks.c15", "--battery", tier], cwd=VERIF_DIR, env=env, capture_output=True, text=True)
        digests.append(dict(json.loads(p.stdout)).get(case["battery_case"]))
    if digests[0] != digests[1]:
        return ("result-depends-on-hash-seed", digests[0], digests[1])
    return None


# ----------------------------------------------------------------------------- plan


def plan(tier, seed):
    shards = []
    quick = tier == "quick"
    # hist-ev
    for s in plan_graph_shards("A", n_max=4, chunk=8 if quick else 4):
        shards.append(dict(s, part="hist-ev", pairs=False, bound="hist-ev " + s["bound"]))
    for s in plan_graph_shards("B", n_max=3, n_min=2, k=1 if quick else 2, parts=2):
        shards.append(dict(s, part="hist-ev", pairs=True, bound="hist-ev all ordered pairs " + s["bound"]))
    for s in plan_graph_shards("B", n_max=4, n_min=4, k=1 if quick else 2, parts=12 if quick else 16):
        if quick and s["edges"] == 0:
            continue
        shards.append(dict(s, part="hist-ev", pairs=True, bound="hist-ev all ordered pairs " + s["bound"]))
    if not quick:
        for s in plan_graph_shards("B", n_max=5, n_min=5, k=2, parts=8):
            shards.append(dict(s, part="hist-ev", pairs=False, bound="hist-ev " + s["bound"]))
    # hist-rule
    n_rules = len(rule_pool_for_reapply())
    step = 160 if quick else 80
    for lo in range(0, n_rules, step):
        shards.append({"part": "hist-rule", "lo": lo, "hi": min(n_rules, lo + step), "bound": "hist-rule"})
    # hist-mixed
    for pool in MIXED_POOLS:
        cfg_actions = 11 * len(MIXED_POOLS[pool]["evs"])
        shards.append({"part": "hist-mixed", "pool": pool, "first": [], "bfs": True, "plain_len": 0, "bound": "hist-mixed bfs"})
        for a0 in range(cfg_actions):
            shards.append({"part": "hist-mixed", "pool": pool, "first": [a0], "bfs": False, "plain_len": 2 if quick else 3,
                           "bound": f"hist-mixed all histories <= {2 if quick else 3}"})
    # perm
    for s in plan_graph_shards("A", n_max=4, chunk=8):
        shards.append(dict(s, part="perm", bound="perm " + s["bound"]))
    if not quick:
        for s in plan_graph_shards("B", n_max=5, n_min=5, k=2, parts=8):
            shards.append(dict(s, part="perm", bound="perm " + s["bound"]))
    for s in plan_graph_shards("A", n_max=4, chunk=4):
        shards.append(dict(s, part="layer-perm", bound="layer-perm " + s["bound"]))
    # scan-order
    n_entries = 3 if quick else 4
    n_trees = len(tree_space(n_entries))
    step = 30 if quick else 40
    for lo in range(0, n_trees, step):
        shards.append({"part": "scan-order", "n": n_entries, "lo": lo, "hi": lo + step, "bound": f"scan-order trees<={n_entries} entries"})
    shards.append({"part": "scan-order-feature", "bound": "scan-order feature trees"})
    shards.append({"part": "option-order", "bound": "option-order"})
    # seeds
    seeds = [0, 1, 2, 3, 4, 5, 6, 7] if quick else list(range(24))
    for lo in range(1, len(seeds), 4):
        shards.append({"part": "seeds", "seeds": [seeds[0]] + seeds[lo : lo + 4], "bound": f"hash seeds ({len(seeds)})"})
    req = ["fresh:PASS", "fresh:FAIL", "long-history", "all-pairs", "reapplied:same", "rule-object-states", "mixed-states",
           "plain-history", "perm:PASS", "perm:FAIL", "layer-perm:PASS", "layer-perm:FAIL", "dir-order", "rescan",
           "option-order:exclusions", "option-order:external_exclusions", "seed-batteries"]
    # heavy shards first, so that the pool does not end with a long tail
    weight = {"seeds": 0, "hist-rule": 2, "layer-perm": 3}
    shards.sort(key=lambda s: (1 if (s["part"] == "hist-ev" and s.get("pairs")) else weight.get(s["part"], 5)))
    only = os.environ.get("C15_PARTS")  # development aid: run a subset of the parts (no vacuity guard then)
    if only:
        shards = [s for s in shards if s["part"] in only.split(",")]
        req = []
    return {"shards": shards, "require_nonzero": req}


SCAN_FEATURE_TREES = [
    # a module file and a package directory with the same stem side by side (package shadows module):
    # both map to one module name, whichever is enumerated first
    {"p": "d", "p/u.py": "f", "p/u": "d", "p/u/v.py": "f", "p/w.py": "f"},
    {"u.py": "f", "u": "d", "u/__init__.py": "f", "u/a.py": "f", "b.py": "f"},
    {"p": "d", "p/__init__.py": "f", "p/a.py": "f", "p/b.py": "f", "p/q": "d", "p/q/c.py": "f", "p/q/d.py": "f", "m.py": "f"},
    {"x": "d", "x/a.py": "f", "x/ab.py": "f", "x/a_b.py": "f", "y": "d", "y/a.py": "f", "y/x": "d", "y/x/a.py": "f"},
]


def run_shard(shard, tier, seed):
    res = Result(shard["bound"])
    part = shard["part"]
    viol = []
    if part == "hist-ev":
        for ns, I in shard_graphs(shard, seed):
            pool = pool_specs(ns, single_only=shard["pairs"] and len(ns) > 3)
            for v in hist_ev_graph(ns, I, pool, res, seed, shard["pairs"]):
                viol.append((v[0], dict(v[1], part=part, modules=ns, imports=I, seed=seed), v[2], v[3]))
            if not res.samples and I:
                res.sample({"part": part, "modules": ns, "imports": I, "history": [pool[0], pool[1]]})
    elif part == "hist-rule":
        evs = evaluable_pool(tier)
        specs = rule_pool_for_reapply()[shard["lo"] : shard["hi"]]
        for spec in specs:
            for v in hist_rule(spec, evs, res, seed, HIST_DEPTH, 2):
                viol.append((v[0], dict(v[1], part=part, seed=seed), v[2], v[3]))
        res.sample({"part": part, "rule": specs[0], "evaluables": [_evjs(evs[1]), _evjs(evs[-1])]})
    elif part == "hist-mixed":
        base = scratch_dir(f"c15-mixed-{shard['pool']}-{'bfs' if shard['bfs'] else shard['first'][0]}")
        try:
            vs, _ = hist_mixed(shard["pool"], base, res, seed, shard["first"], shard["plain_len"], shard["bfs"])
            for v in vs:
                viol.append((v[0], dict(v[1], part=part, seed=seed), v[2], v[3]))
            if shard["bfs"]:
                res.sample({"part": part, "pool": shard["pool"], "history": [["m-anything", 0], ["l-only", 1], ["m-anything", 1]]})
        finally:
            remove_scratch(base)
    elif part == "perm":
        for ns, I in shard_graphs(shard, seed):
            ev = build(ns, I, seed)
            res.states += 1
            for spec in perm_specs(ns) + glob_batch_specs(ns):
                v = check_perm(ns, I, spec, ev, res)
                if v:
                    viol.append((v[0], dict(v[1], part=part, modules=ns, imports=I, seed=seed), v[2], v[3]))
    elif part == "layer-perm":
        for ns, I in shard_graphs(shard, seed):
            ev = build(ns, I, seed)
            res.states += 1
            for layers in layerings(ns):
                for style in ("names", "regex", "mixed"):
                    for spec in layer_rule_specs(layers):
                        v = check_layer_perm(ns, I, layers, style, spec, ev, res)
                        if v:
                            viol.append((v[0], dict(v[1], part=part, modules=ns, imports=I, seed=seed), v[2], v[3]))
    elif part == "scan-order":
        ts = tree_space(shard["n"])[shard["lo"] : shard["hi"]]
        for k, entries in enumerate(ts):
            for v in check_scan_orders(entries, res, 1500, f"so-{shard['lo']}-{k}"):
                viol.append((v[0], dict(v[1], part="scan-order"), v[2], v[3]))
        if ts:
            res.sample({"part": part, "entries": ts[-1], "order": "every permutation of every directory's entries"})
    elif part == "scan-order-feature":
        for k, entries in enumerate(SCAN_FEATURE_TREES):
            for v in check_scan_orders(entries, res, 3000, f"sof-{k}"):
                viol.append((v[0], dict(v[1], part="scan-order"), v[2], v[3]))
    elif part == "option-order":
        for v in check_option_orders(res, "oo"):
            viol.append((v[0], dict(v[1], part=part), v[2], v[3]))
    elif part == "seeds":
        for v in run_seeds(shard["seeds"], tier, res):
            viol.append((v[0], dict(v[1], part=part), v[2], v[3]))
        res.sample({"part": part, "seeds": shard["seeds"], "battery": "rules x layers x scans, digests per case"})
    for kind, case, exp, obs in viol:
        res.violation(kind, case, exp, obs)
    return res


# -------------------------------------------------------------------- replay / minimise


def _check_case(case):
    part = case.get("part")
    if part == "hist-ev":
        return replay_hist_ev(case)
    if part == "hist-rule":
        return replay_hist_rule(case)
    if part == "hist-mixed":
        return replay_hist_mixed(case)
    if part == "perm":
        ns, I = case["modules"], [tuple(e) for e in case["imports"]]
        ev = build(ns, I, case.get("seed", 0))
        base = run_rule(mk(case["rule"]), ev)
        got = run_rule(mk(case["permuted"]), ev)
        return ("result-depends-on-listing-order", list(base), list(got)) if got != base else None
    if part == "layer-perm":
        ns, I = case["modules"], [tuple(e) for e in case["imports"]]
        ev = build(ns, I, case.get("seed", 0))
        base = run_rule(mk_lr(mk_la(layer_defs(case["layers"], case["style"])), case["rule"]), ev)
        d2 = [(n, (x[0], x[1])) for n, x in case["definitions"]]
        got = run_rule(mk_lr(mk_la(d2), dict(case["rule"], obj=case["objects"])), ev)
        return ("layer-rule-result-depends-on-listing-order", list(base), list(got)) if got != base else None
    if part == "scan-order":
        return replay_scan_order(case)
    if part == "option-order":
        res = Result()
        vs = [v for v in check_option_orders(res, "oo-replay") if v[1]["option"] == case["option"] and v[1]["patterns"] == case["patterns"]]
        return (vs[0][0], vs[0][2], vs[0][3]) if vs else None
    if part == "seeds":
        return replay_seeds(case)
    raise ValueError(part)


def minimise(v):
    case, kind = v["case"], v["kind"]
    part = case.get("part")
    if part == "hist-ev":
        case = minimise_hist(case, kind, replay_hist_ev)
        changed = True
        while changed:
            changed = False
            for e in list(case["imports"]):
                trial = dict(case, imports=[x for x in case["imports"] if x != e])
                r = replay_hist_ev(trial)
                if r and r[0] == kind:
                    case, changed = trial, True
        last = case["history"][-1]
        sig = f"{kind}:hist-ev:len{len(case['history'])}:{last['verb']}/{last['exc']}:{last['sk']}/{last.get('ok')}"
    elif part == "hist-rule":
        evs = list(case["evaluables"])
        changed = True
        while changed and len(evs) > 1:
            changed = False
            for k in range(len(evs) - 1):
                trial = dict(case, evaluables=evs[:k] + evs[k + 1 :])
                r = replay_hist_rule(trial)
                if r and r[0] == kind:
                    evs, changed = trial["evaluables"], True
                    break
        case = dict(case, evaluables=evs)
        sp = case["rule"]
        sig = f"{kind}:hist-rule:len{len(evs)}:{'anything' if sp.get('anything') else sp['verb']}:{sp['sk']}/{sp.get('ok')}"
    elif part == "hist-mixed":
        case = minimise_hist(case, kind, replay_hist_mixed)
        sig = f"{kind}:hist-mixed:{case['pool']}:len{len(case['history'])}:{case['history'][-1][0]}"
    elif part == "perm":
        sp = case["rule"]
        sig = f"{kind}:{'anything' if sp.get('anything') else sp['verb'] + '/' + str(sp['exc'])}:{sp['sk']}/{sp.get('ok')}:{'import' if sp['imp'] else 'imported'}"
    elif part == "layer-perm":
        sp = case["rule"]
        sig = f"{kind}:{'anything' if sp.get('anything') else sp['verb'] + '/' + str(sp['exc'])}:{case['style']}"
    elif part == "scan-order":
        sig = f"{kind}:{case['module_path']}:dirs{len(case.get('order', {}))}"
    elif part == "option-order":
        sig = f"{kind}:{case['option']}:{len(case['patterns'])}"
    else:
        sig = f"{kind}:{case.get('battery_case', '').split(':')[0]}"
    r = _check_case(case)
    out = dict(v, case=case, signature=sig)
    if r:
        out.update(expected=r[1], observed=r[2])
    return out


def replay(rec):
    r = _check_case(rec["case"])
    if r:
        return [{"kind": r[0], "case": rec["case"], "expected": r[1], "observed": r[2]}]
    return []


if __name__ == "__main__":
    if len(sys.argv) >= 3 and sys.argv[1] == "--battery":
        json.dump(battery(sys.argv[2]), sys.stdout)
