"""C16 - layer definitions are well-formed (E2 history BFS + E4 TLC model with conformance)."""

from __future__ import annotations

import itertools
import os

from .. import e2
from ..common import arch
from ..e2 import ACCEPT, DONT, FREE, REJECT
from ..engine import Result

from pytestarch import LayeredArchitecture, LayerRule  # noqa: E402

ID = "C16"
RULE = (
    "(a) breadth-first search over all call histories of the real LayeredArchitecture builder "
    "(alphabet: layer(L1|L2|L3), containing_modules(str) and (list of 0-2 distinct names) over "
    "{mod_one, one_mod, o}, have_modules_with_names_matching(rx1 | a regex spelled like the module name mod_one), with_layer()), deduplicated "
    "on (full attribute snapshot, specification state) and run to the fixpoint; (b) the same for "
    "LayerRule over its 15 fluent methods, depth-bounded; (c) TLA+ model of (a) explored by TLC "
    "with a history variable, every model state replayed on the real builder. Every transition is "
    "classified by an independent specification automaton (must-reject / must-accept / free / "
    "don't-care); a state is one (object snapshot, automaton state) pair; non-trivial = transitions "
    "whose class is must-reject or must-accept"
)
ASSUMPTIONS = [
    "module names mod_one / one_mod / o are multi-character resp. share characters, so treating a string as a set of characters is observable",
    "lists passed to containing_modules contain distinct names; duplicate names inside one list are outside the property; an empty list may be rejected or accepted, but supplies no modules: the layer it was given to is still waiting for its modules",
    "calls the property does not mention (modules without an open layer, second based_on, object-side repetitions) are don't-care: followed only when the implementation rejects them",
    "a rejected call must raise ImproperlyConfigured (the library's configuration error)",
]

MODS = ("mod_one", "one_mod", "o")
LAYERS = ("L1", "L2", "L3")
REGEXES = ("rx1", "mod_one")  # one regex is spelled exactly like a module name

# ------------------------------------------------------------------ (a) LayeredArchitecture


def la_actions():
    acts = [("layer", l) for l in LAYERS]
    acts += [("cm_str", m) for m in MODS]
    acts += [("cm_list", ())]  # an empty list supplies no modules
    acts += [("cm_list", (m,)) for m in MODS]
    acts += [("cm_list", p) for p in itertools.permutations(MODS, 2)]
    acts += [("regex", r) for r in REGEXES]
    acts += [("with_layer",)]
    return acts


LA_METHODS = {
    "layer": lambda o, n: o.layer(n),
    "cm_str": lambda o, m: o.containing_modules(m),
    "cm_list": lambda o, ms: o.containing_modules(list(ms)),
    "regex": lambda o, r: o.have_modules_with_names_matching(r),
    "with_layer": lambda o: o.with_layer(),
}


def la_canon(o):
    return e2.generic_canon(o)


def la_observe(o):
    names = list(o.layer_mapping.all_layers)
    return {
        "str": str(o),
        "layers": names,
        "modules": {n: [[type(f).__name__, f.identifier] for f in o[n]] for n in names},
    }


def la_expected(st):
    """Observable the documentation promises for specification state st."""
    parts, mods = [], {}
    for name, content in st:
        if content is None:
            ids, typed = [], []
        elif content[0] == "regex":
            ids, typed = [content[1]], [["ModuleNameRegexFilter", content[1]]]
        else:
            ids = list(content[1])
            typed = [["ModuleNameFilter", m] for m in content[1]]
        parts.append(f"Layer {name}: [{', '.join(ids)}]")
        mods[name] = typed
    return {"str": "Layered Architecture: " + "; ".join(parts), "layers": [n for n, _ in st], "modules": mods}


def la_supplied_still_listed(obj, st, action):
    """Weak check for calls the statement leaves open but the implementation accepts (e.g. a second
    module specification for an already filled layer): 'every accepted definition lists exactly the
    layers and modules that were supplied', so nothing supplied earlier may have disappeared and
    what this call supplied must be listed too."""
    supplied = set()
    for _, c in st:
        if c:
            supplied |= set(c[1]) if c[0] == "names" else {c[1]}
    if action[0] in ("cm_str", "regex"):
        supplied.add(action[1])
    elif action[0] == "cm_list":
        supplied |= set(action[1])
    try:
        listed = {ident for fs in la_observe(obj)["modules"].values() for _, ident in fs}
    except Exception as e:  # noqa: BLE001
        return ("accepted-definition-cannot-be-read", "a readable definition", f"{type(e).__name__}: {e}")
    if not supplied <= listed:
        return ("accepted-call-dropped-supplied-modules", sorted(supplied), sorted(listed))
    return None


def la_spec_step(st, action):
    """st: tuple of (layer name, None | ('names', tuple) | ('regex', r))."""
    kind = action[0]
    pending = [n for n, c in st if c is None]
    if kind == "with_layer":
        return ACCEPT, st, la_expected(st)
    if kind == "layer":
        name = action[1]
        if pending or any(n == name for n, _ in st):
            return REJECT, st, None
        nxt = st + ((name, None),)
        return ACCEPT, nxt, la_expected(nxt)
    if kind in ("cm_str", "cm_list"):
        ms = (action[1],) if kind == "cm_str" else tuple(action[1])
        if not pending:
            return DONT, st, None
        if not ms:
            # the call itself is not covered by the statement (it may be rejected); if it is accepted the layer has
            # still not received any modules, so it stays open: the next layer(...) must be rejected
            return FREE, st, None
        assigned = {m for _, c in st if c and c[0] == "names" for m in c[1]}
        # a name spelled exactly like the regex of an earlier layer would belong to both layers
        assigned |= {c[1] for _, c in st if c and c[0] == "regex"}
        if assigned & set(ms):
            return REJECT, st, None
        nxt = tuple((n, ("names", ms)) if c is None else (n, c) for n, c in st)
        return ACCEPT, nxt, la_expected(nxt)
    if kind == "regex":
        if not pending:
            return DONT, st, None
        if any(c and action[1] in (c[1] if c[0] == "names" else (c[1],)) for _, c in st):
            return DONT, st, None  # regex spelled like an identifier already in use: not covered by the statement
        nxt = tuple((n, ("regex", action[1])) if c is None else (n, c) for n, c in st)
        return ACCEPT, nxt, la_expected(nxt)
    raise ValueError(action)


# ----------------------------------------------------------------------------- (b) LayerRule


def _arch():
    return (
        LayeredArchitecture()
        .layer("A").containing_modules(["r.a"])
        .layer("B").containing_modules(["r.b"])
        .layer("C").have_modules_with_names_matching("^r\\.c$")
    )


ARCH_STR = "Layered Architecture: Layer A: [r.a]; Layer B: [r.b]; Layer C: [^r\\.c$]"

LR_ACTIONS = [
    ("based_on",), ("based_on_empty",), ("layers_that",), ("named", "A"), ("named", "B"), ("named_list", ("A", "B")),
    ("named_list", ("A",)), ("should",), ("should_only",), ("should_not",),
    ("access_layers_that",), ("be_accessed_by_layers_that",), ("access_layers_except_layers_that",),
    ("be_accessed_by_layers_except_layers_that",), ("access_any_layer",), ("be_accessed_by_any_layer",),
]
LR_METHODS = {
    "based_on": lambda o: o.based_on(_arch()),
    "based_on_empty": lambda o: o.based_on(LayeredArchitecture()),  # an architecture without any layer (yet)
    "named": lambda o, n: o.are_named(n),
    "named_list": lambda o, ns: o.are_named(list(ns)),
}
for _m in ("layers_that", "should", "should_only", "should_not", "access_layers_that", "be_accessed_by_layers_that",
           "access_layers_except_layers_that", "be_accessed_by_layers_except_layers_that", "access_any_layer",
           "be_accessed_by_any_layer"):
    LR_METHODS[_m] = (lambda name: lambda o: getattr(o, name)())(_m)


def rule_canon(r):
    """Complete attribute snapshot of a Rule (every attribute, also ones added later)."""
    return e2.generic_canon(r)


def lr_canon(o):
    return e2.generic_canon(o)


def lr_spec_step(st, action):
    """st = (has_arch, has_rule, phase, n_subjects)."""
    has_arch, has_rule, phase, nsub = st
    kind = action[0]
    if kind in ("based_on", "based_on_empty"):
        if has_arch:
            return DONT, st, None
        # has_arch is True or "empty" (an architecture without layers: naming a layer is then a lookup of
        # something undefined, on which the statement makes no demand)
        return ACCEPT, (True if kind == "based_on" else "empty", has_rule, phase, nsub), None
    if not has_arch:
        return REJECT, st, None  # a layer rule needs an architecture first
    if kind == "layers_that":
        # with an architecture given - whatever it contains - a rule may be started
        return ACCEPT, (has_arch, True, "subject", 0), None
    if not has_rule:
        return DONT, st, None
    if kind in ("named", "named_list"):
        if has_arch == "empty":
            return FREE, st, None
        if phase == "subject":
            if kind == "named_list":
                return (REJECT if len(action[1]) > 1 else DONT), st, None
            if nsub >= 1:
                return REJECT, st, None  # exactly one subject layer
            return ACCEPT, (True, True, "subject", 1), None
        return FREE, st, None
    if kind in ("should", "should_only", "should_not"):
        return FREE, st, None
    return FREE, (has_arch, True, "object", nsub), None


# ------------------------------------------------------------------------------- plan / run


def plan(tier, seed):
    shards = [{"part": "layered-architecture", "bound": "LayeredArchitecture BFS to fixpoint"}]
    depth = 7 if tier == "quick" else 10
    shards.append({"part": "layer-rule", "depth": depth, "bound": f"LayerRule BFS depth<={depth}"})
    shards.append({"part": "tla", "bound": "TLC LayerBuilder model + conformance replay"})
    shards.append({"part": "tla-layer-rule", "bound": "TLC LayerRuleBuilder model + conformance replay"})
    return {"shards": shards, "require_nonzero": ["REJECT:ERR", "ACCEPT:OK", "tla:states", "layer-rule-tla:states", "layer-rule-tla:REJECT:ERR", "layer-rule-tla:ACCEPT:OK"]}


def run_shard(shard, tier, seed):
    res = Result(shard["bound"])
    if shard["part"] == "layered-architecture":
        n, t, fix, deep = e2.explore(LayeredArchitecture, la_actions(), LA_METHODS, la_canon, (), la_spec_step,
                                     la_observe, 12, res, on_dont_accepted=la_supplied_still_listed)
        res.extra["la_fixpoint_reached"] = bool(fix)
        res.extra["la_states"] = n
        res.extra["la_longest_shortest_history"] = deep
        res.nontrivial += res.stats["REJECT:ERR"] + res.stats["ACCEPT:OK"]
        res.sample({"history": [["layer", "L1"], ["cm_str", "mod_one"], ["layer", "L2"], ["cm_str", "mod_one"]],
                    "class_of_last_call": "REJECT"})
        for v in res.violations:
            v["case"]["part"] = "layered-architecture"
    elif shard["part"] == "layer-rule":
        layer_of = {"r.a": "A", "r.b": "B", "^r\\.c$": "C"}

        def one_subject_layer(obj, st, hist):
            # "exactly one subject layer": in every reachable builder state the subject filters of the
            # lowered rule belong to at most one layer (read through Rule.rule_subjects; skipped if the
            # implementation no longer exposes it)
            a = getattr(obj, "_architecture", None)
            if a is not None:
                res.stats["architecture-of-rule:observed"] += 1
                try:
                    now = la_observe(a)["str"]
                except Exception as e:  # noqa: BLE001
                    now = f"{type(e).__name__}: {e}"
                first = next((a[0] for a in hist if a[0] in ("based_on", "based_on_empty")), "based_on")
                want = ARCH_STR if first == "based_on" else "Layered Architecture: "
                if now != want:
                    res.violation("building-a-layer-rule-changed-the-architecture-definition", {"history": [list(x) for x in hist]}, want, now)
                    return
            rule = getattr(obj, "_rule", None)
            subs = getattr(rule, "rule_subjects", None) if rule is not None else None
            if subs is None:
                res.stats["subject-layers:not-observable"] += 1
                return
            layers = {layer_of.get(f.identifier, f.identifier) for f in subs}
            res.stats["subject-layers:observed"] += 1
            if len(layers) > 1:
                res.violation("accepted-layer-rule-has-several-subject-layers", {"history": [list(a) for a in hist]},
                              "at most one subject layer", sorted(layers))

        n, t, fix, deep = e2.explore(LayerRule, LR_ACTIONS, LR_METHODS, lr_canon, (False, False, None, 0), lr_spec_step,
                                     lambda o: None, shard["depth"], res, on_node=one_subject_layer)
        res.extra["lr_fixpoint_reached"] = bool(fix)
        res.extra["lr_states"] = n
        res.nontrivial += res.stats["REJECT:ERR"] + res.stats["ACCEPT:OK"]
        res.sample({"history": [["based_on"], ["layers_that"], ["named", "A"], ["named", "B"]], "class_of_last_call": "REJECT"})
        for v in res.violations:
            v["case"]["part"] = "layer-rule"
    elif shard["part"] == "tla-layer-rule":
        import sys

        from .. import conform_layerrule_tla
        from . import c13

        conform_layerrule_tla.run(res, tier, c13, sys.modules[__name__], "builder")
    else:
        from .. import conform_tla

        conform_tla.run(res, tier)
    return res


def _check_case(case):
    hist = [tuple(tuple(x) if isinstance(x, list) else x for x in a) for a in case["history"]]
    if case.get("part") == "layer-rule":
        make, methods, step, st, observe = LayerRule, LR_METHODS, lr_spec_step, (False, False, None, 0), lambda o: None
    else:
        make, methods, step, st, observe = LayeredArchitecture, LA_METHODS, la_spec_step, (), la_observe
    obj = make()
    for i, a in enumerate(hist):
        cls, nxt, expected = step(st, a)
        out = e2.apply(obj, a, methods)
        last = i == len(hist) - 1
        if cls == REJECT:
            if out[0] != "ERR" or out[1] not in e2.CONFIG_ERRORS:
                return ("violating-call-not-rejected-with-configuration-error", {"class": cls, "call": i}, list(out))
            continue
        if cls == ACCEPT:
            if out[0] != "OK":
                return ("well-formed-call-rejected", {"class": cls, "call": i}, list(out))
            if expected is not None and observe(obj) != expected:
                return ("accepted-definition-differs-from-what-was-supplied", expected, observe(obj))
            st = nxt
            continue
        if out[0] == "FAIL":
            return ("builder-call-raised-assertion-error", {"class": cls, "call": i}, list(out))
        if out[0] == "OK":
            if cls == DONT:
                if last and case.get("part") != "layer-rule":
                    w = la_supplied_still_listed(obj, st, a)
                    if w:
                        return w
                return None  # outside the property
            st = nxt
    if case.get("part") == "layer-rule":
        rule = getattr(obj, "_rule", None)
        subs = getattr(rule, "rule_subjects", None) if rule is not None else None
        if subs is not None:
            layer_of = {"r.a": "A", "r.b": "B", "^r\\.c$": "C"}
            layers = {layer_of.get(f.identifier, f.identifier) for f in subs}
            if len(layers) > 1:
                return ("accepted-layer-rule-has-several-subject-layers", "at most one subject layer", sorted(layers))
    return None


def minimise(v):
    v = dict(v)
    acts = v["case"]["history"]
    v["signature"] = f"{v['kind']}:{v['case'].get('part')}:{acts[-1][0]}:len{len(acts)}"
    return v


def replay(rec):
    r = _check_case(rec["case"])
    if r:
        return [{"kind": r[0], "case": rec["case"], "expected": r[1], "observed": r[2]}]
    return []
