"""C17 - plot labels: aliases replace the nearest aliased ancestor, all modules labelled (E1)."""

from __future__ import annotations

import itertools

from ..common import arch
from ..engine import Result
from ..refmodel import label_model, truncate
from ..spaces import NAMINGS, NAMING_SELFPREFIX, admissible_pairs, leaves, nodes, rename, trees

import pytestarch.eval_structure.networkxgraph as nxg  # noqa: E402

ID = "C17"
RULE = (
    "every tree shape within the node bound under the identity, adversarial and (thorough) "
    "non-ASCII naming x every alias map with up to k keys over the modules x alias strings from "
    "{A, x.y, a+b, (, empty, $\\beta$, \\g<0>, p\\1} x spacing present/absent x one pass-through keyword, plus every "
    "single unknown alias key; the drawing backend is intercepted and labels / keywords are "
    "compared with the label model; a case is one visualize() call; non-trivial = at least one "
    "alias applies to a module other than the key itself or the key is unknown"
)
ASSUMPTIONS = [
    "networkx.draw_networkx as imported by pytestarch.eval_structure.networkxgraph is replaced by a recorder (no figure is drawn); spring_layout runs for real",
    "label model: alias of the longest aliased ancestor-or-self on dotted-name boundaries + remaining suffix, else the full name",
]

ALIAS_POOL = ["A", "x.y", "a+b", "(", "", "$\\beta$", "\\g<0>", "p\\1"]  # incl. regex metacharacters and replacement-template escapes


class Recorder:
    def __init__(self):
        self.calls = []

    def __call__(self, graph, **kwargs):
        self.calls.append((graph, kwargs))


def plan(tier, seed):
    n_max, k = (5, 3) if tier == "quick" else (6, 3)
    namings = ["identity", "adversarial"] + (["unicode"] if tier == "thorough" else [])
    shards = []
    for n in range(2, n_max + 1):
        for t in trees(n):
            for naming in namings:
                kk = k if (tier == "thorough" or n <= 4) else 2  # quick: three nested keys on trees up to 4 modules
                shards.append({"tree": t, "naming": naming, "k": kk, "bound": f"trees<={n_max} alias keys<={k} (n=5: {kk}) naming={naming}" if kk != k else f"trees<={n_max} alias keys<={k} naming={naming}"})
            # names of very different lengths (a shallow module with a longer name than deeper ones)
            shards.append({"tree": t, "naming": "lengths", "k": 2, "bound": f"trees<={n_max} alias keys<=2 naming=lengths"})
            if n <= 4 or tier == "thorough":
                # a child repeats the name of its package (r.r, r.ra, r.r.r); level-limited and implicit-ancestor architectures
                shards.append({"tree": t, "naming": "selfprefix", "k": 2, "bound": f"trees<={n_max} alias keys<=2 naming=selfprefix"})
                if tier == "quick":
                    shards.append({"tree": t, "naming": "unicode", "k": 2, "bound": f"trees<={n_max} alias keys<=2 naming=unicode"})
                if n >= 3:
                    for variant in ("limit1", "implicit"):
                        shards.append({"tree": t, "naming": "identity", "k": 2, "variant": variant, "bound": f"trees<={n_max} alias keys<=2 variant={variant}"})
    return {"shards": shards, "require_nonzero": ["label:aliased", "label:plain", "unknown-key:ERR", "spacing", "alias-dict-reused"]}


def one_call(ev, ns, aliases, spacing, extra, rec, copy_aliases=True):
    kwargs = dict(extra)
    if aliases is not None:
        kwargs["aliases"] = dict(aliases) if copy_aliases else aliases
    if spacing is not None:
        kwargs["spacing"] = spacing
    rec.calls.clear()
    try:
        ev.visualize(**kwargs)
    except Exception as e:  # noqa: BLE001
        return ("ERR", type(e).__name__, str(e))
    return ("OK", list(rec.calls))


def build_variant(ns, I, variant):
    """-> (evaluable, modules the architecture must consist of).
    plain: every module handed to the constructor; limit1: level_limit=1 (modules below the limit
    do not exist in the architecture); implicit: only the leaf modules are handed over, their
    ancestor packages exist because the hierarchy implies them (as for module_path below root)."""
    if variant == "limit1":
        return arch(ns, I, 1), sorted({truncate(n, 1) for n in ns})
    if variant == "implicit":
        return arch(leaves(ns), I), list(ns)
    return arch(ns, I), list(ns)


def check(ns, I, aliases, spacing, extra, res, ev=None, variant="plain"):
    """Returns a violation tuple or None.  ev: evaluable to (re-)use; None = a fresh one."""
    rec = Recorder()
    old = nxg.draw_networkx
    nxg.draw_networkx = rec
    try:
        fresh, eff = build_variant(ns, I, variant)
        if ev is None:
            ev = fresh
        out = one_call(ev, ns, aliases, spacing, extra, rec)
    finally:
        nxg.draw_networkx = old
    ns = eff  # from here on: the modules of the architecture as built
    unknown = [k for k in (aliases or {}) if k not in ns]
    if res is not None:
        res.transitions += 1
        res.evaluations += 1
        res.traces += 1
    if unknown:
        if res is not None:
            res.stats[f"unknown-key:{out[0]}"] += 1
            res.nontrivial += 1
        if out[0] != "ERR":
            return ("unknown-alias-key-accepted", f"an error naming {unknown[0]}", "returned normally")
        if not any(u in out[2] for u in unknown):
            return ("unknown-alias-key-error-does-not-name-it", f"an error naming one of {unknown}", out[2])
        return None
    if out[0] != "OK":
        return ("visualize-raised", "a drawing call", list(out))
    if len(out[1]) != 1:
        return ("backend-calls", "exactly one draw_networkx call", len(out[1]))
    graph, kw = out[1][0]
    if sorted(graph.nodes) != sorted(ns):
        return ("drawn-graph-nodes", sorted(ns), sorted(graph.nodes))
    if aliases is not None:
        exp = {m: label_model(m, aliases) for m in ns}
        got = kw.get("labels")
        if res is not None:
            hit = any(exp[m] != m and m not in aliases for m in ns)
            res.stats["label:aliased" if hit else "label:plain"] += 1
            if hit:
                res.nontrivial += 1
        if got != exp:
            return ("labels", exp, got)
    elif "labels" in kw:
        return ("labels-without-aliases", "no labels keyword", kw.get("labels"))
    if spacing is not None:
        if res is not None:
            res.stats["spacing"] += 1
        pos = kw.get("pos")
        if pos is None or sorted(pos.keys()) != sorted(ns):
            return ("spacing-pos", sorted(ns), None if pos is None else sorted(pos.keys()))
        if "spacing" in kw:
            return ("spacing-leaked", "spacing consumed", kw["spacing"])
    for k, v in extra.items():
        if kw.get(k, "<absent>") != v:
            return ("keyword-not-passed-through", {k: v}, kw.get(k, "<absent>"))
    allowed = set(extra) | ({"labels"} if aliases is not None else set()) | ({"pos"} if spacing is not None else set())
    if set(kw) - allowed:
        return ("unexpected-keywords", sorted(allowed), sorted(kw))
    return None


def run_shard(shard, tier, seed):
    res = Result(shard["bound"])
    t = tuple(_tuplify(shard["tree"]))
    base = nodes(t)
    m = NAMING_SELFPREFIX if shard["naming"] == "selfprefix" else NAMINGS[shard["naming"]]
    variant = shard.get("variant", "plain")
    ns = [rename(n, m) for n in base]
    pairs = admissible_pairs(base)
    I = [(rename(a, m), rename(b, m)) for a, b in pairs[:2]]
    res.states += 1
    extras = [{}, {"node_size": 123}, {"with_labels": False, "ax": "AXIS"}]
    cases = [(None, None)]
    pool = ALIAS_POOL + [n for n in ns[:2]]  # alias strings that are themselves module names
    for k in range(0, shard["k"] + 1):
        for keys in itertools.combinations(ns, k):
            for vals in itertools.product(pool, repeat=k):
                cases.append((dict(zip(keys, vals)), None))
    # every call is made twice: on one evaluable shared by all calls of this shard (so that state
    # kept between calls is exercised) and, if that disagrees with the model, on a fresh one
    shared = build_variant(ns, I, variant)[0]
    history = []
    for aliases, _ in cases:
        for spacing in (None, 0.5):
            for extra in extras:
                if spacing is not None and extra and aliases and len(aliases) > 1:
                    continue  # keyword pass-through is independent of the alias map size
                v = check(ns, I, aliases, spacing, extra, res, ev=shared, variant=variant)
                call_rec = {"aliases": aliases, "spacing": spacing, "extra": extra}
                if v and res.violation_count >= 12:
                    # enough witnesses from this shard: count the case, skip the search for a short history
                    res.violation(v[0], {"modules": ns, "imports": I, "aliases": aliases, "spacing": spacing, "extra": extra, "variant": variant,
                                         "note": "not minimised"}, v[1], v[2])
                elif v:
                    case = {"modules": ns, "imports": I, "aliases": aliases, "spacing": spacing, "extra": extra, "variant": variant}
                    if check(ns, I, aliases, spacing, extra, None, variant=variant) is None:
                        # only after earlier calls on the same evaluable: keep the shortest suffix that reproduces
                        for n_prev in (1, 2, 8, min(len(history), 400)):
                            case["history"] = history[-n_prev:] if n_prev else []
                            if _check_case(case):
                                break
                        v = ("label-depends-on-earlier-visualize-calls:" + v[0], v[1], v[2])
                    res.violation(v[0], case, v[1], v[2])
                history.append(call_rec)
    # one alias dict object handed to visualize() of two different architectures in a row (the full
    # tree, then the same tree with level_limit=1): the second call must be judged by the dict the
    # user wrote, and must not reject keys the user never gave
    if variant == "plain" and len(ns) >= 3:
        top = [n for n in ns if n.count(".") <= 1]
        ev_full, _ = build_variant(ns, I, "plain")
        for k in (1, 2):
            for keys in itertools.combinations(top, k):
                for vals in itertools.product(ALIAS_POOL[:3], repeat=k):
                    original = dict(zip(keys, vals))
                    d = dict(original)
                    rec = Recorder()
                    old = nxg.draw_networkx
                    nxg.draw_networkx = rec
                    try:
                        one_call(ev_full, ns, d, None, {}, rec, copy_aliases=False)
                        ev_lim, eff = build_variant(ns, I, "limit1")
                        out = one_call(ev_lim, ns, d, None, {}, rec, copy_aliases=False)
                    finally:
                        nxg.draw_networkx = old
                    res.transitions += 2
                    res.evaluations += 1
                    res.traces += 1
                    res.nontrivial += 1
                    res.stats["alias-dict-reused"] += 1
                    exp = {m: label_model(m, original) for m in eff}
                    got = out[1][0][1].get("labels") if out[0] == "OK" and out[1] else list(out)
                    if got != exp:
                        res.violation("labels-after-the-alias-dict-was-used-for-another-architecture",
                                      {"modules": ns, "imports": I, "aliases": original, "spacing": None, "extra": {}, "variant": "dict-reuse"}, exp, got)
    # unknown alias keys
    for bad in [ns[-1] + "x", ns[-1][:-1], "zzz", ns[-1] + ".q"]:
        if bad in ns:
            continue
        for known in ({}, {ns[0]: "A"}):
            v = check(ns, I, dict(known, **{bad: "B"}), None, {}, res, variant=variant)
            if v:
                res.violation(v[0], {"modules": ns, "imports": I, "aliases": dict(known, **{bad: "B"}), "spacing": None, "extra": {}, "variant": variant}, v[1], v[2])
    res.sample({"modules": ns, "aliases": {ns[1]: "A"}, "expected_labels": {x: label_model(x, {ns[1]: "A"}) for x in ns}})
    return res


def _tuplify(t):
    return tuple(_tuplify(c) for c in t)


def _check_case(case):
    I = [tuple(e) for e in case["imports"]]
    ev = None
    variant = case.get("variant", "plain")
    if variant == "dict-reuse":
        rec = Recorder()
        old = nxg.draw_networkx
        nxg.draw_networkx = rec
        try:
            d = dict(case["aliases"])
            one_call(build_variant(case["modules"], I, "plain")[0], case["modules"], d, None, {}, rec, copy_aliases=False)
            ev_lim, eff = build_variant(case["modules"], I, "limit1")
            out = one_call(ev_lim, case["modules"], d, None, {}, rec, copy_aliases=False)
        finally:
            nxg.draw_networkx = old
        exp = {m: label_model(m, case["aliases"]) for m in eff}
        got = out[1][0][1].get("labels") if out[0] == "OK" and out[1] else list(out)
        return ("labels-after-the-alias-dict-was-used-for-another-architecture", exp, got) if got != exp else None
    if case.get("history"):
        ev = build_variant(case["modules"], I, variant)[0]
        for h in case["history"]:
            check(case["modules"], I, h["aliases"], h["spacing"], h["extra"], None, ev=ev, variant=variant)
    return check(case["modules"], I, case["aliases"], case["spacing"], case["extra"], None, ev=ev, variant=variant)


def minimise(v):
    case = dict(v["case"])
    if case.get("variant") == "dict-reuse":
        return dict(v, signature=f"{v['kind']}:keys{len(case['aliases'])}")
    if case.get("note") == "not minimised":
        return dict(v, signature=f"{v['kind']}:after-earlier-calls-on-the-shared-architecture")
    if case.get("history"):
        v = dict(v)
        v["signature"] = f"{v['kind']}:history{len(case['history'])}"
        return v
    if case["aliases"]:
        for k in list(case["aliases"]):
            trial = dict(case, aliases={a: b for a, b in case["aliases"].items() if a != k})
            r = _check_case(trial)
            if r and r[0] == v["kind"]:
                case = trial
    r = _check_case(case)
    v = dict(v, case=case, expected=r[1], observed=r[2])
    v["signature"] = f"{v['kind']}:keys{len(case['aliases'] or {})}" + (f":{case['variant']}" if case.get("variant", "plain") != "plain" else "")
    return v


def replay(rec):
    r = _check_case(rec["case"])
    if r:
        return [{"kind": rec.get("kind", r[0]), "case": rec["case"], "expected": r[1], "observed": r[2]}]
    return []
