"""Shared plumbing: locating the code under test, running it, scratch space.

The code under test is always imported from ``$PTA_SRC`` (default ``/repo/src``), i.e. from the
current working tree; a scratch copy (mutant runs) is checked by pointing ``PTA_SRC`` at it.
"""

from __future__ import annotations

import os
import shutil
import sys
import warnings

VERIF_DIR = os.path.dirname(os.path.dirname(os.path.abspath(__file__)))
PTA_SRC = os.environ.get("PTA_SRC", "/repo/src")
GUARD = "PYTESTARCH_VERIF"


def bind_implementation() -> None:
    """Put the tree under test first on sys.path and make sure that is what gets imported."""
    src = os.path.abspath(PTA_SRC)
    if sys.path[0] != src:
        sys.path.insert(0, src)
    os.environ.setdefault(GUARD, "1")
    import pytestarch  # noqa: F401

    got = os.path.dirname(os.path.dirname(os.path.abspath(pytestarch.__file__)))
    if os.path.realpath(got) != os.path.realpath(src):
        raise SystemExit(
            f"harness fault: pytestarch imported from {got}, expected {src}"
        )
    warnings.simplefilter("ignore", DeprecationWarning)
    # pytestarch's @deprecated decorator resets the warning filters on every call
    warnings.showwarning = lambda *a, **k: None


bind_implementation()

from pytestarch.eval_structure.evaluable_graph import (  # noqa: E402
    EvaluableArchitectureGraph,
)
from pytestarch.eval_structure.networkxgraph import NetworkxGraph  # noqa: E402
from pytestarch.eval_structure_generation.file_import.import_types import (  # noqa: E402
    AbsoluteImport,
)

PASS, FAIL, ERR = "PASS", "FAIL", "ERR"


def arch(modules, imports, level_limit=None):
    """Build an evaluable through the internal constructor the scanner calls last."""
    return EvaluableArchitectureGraph(
        NetworkxGraph(
            list(modules), [AbsoluteImport(a, b) for a, b in imports], level_limit
        )
    )


def run_rule(rule, evaluable):
    """-> (PASS, '') | (FAIL, message) | (ERR, 'Type: text')."""
    try:
        rule.assert_applies(evaluable)
        return (PASS, "")
    except AssertionError as e:
        return (FAIL, str(e.args[0]) if e.args else "")
    except Exception as e:  # noqa: BLE001 - any other exception is an observation
        return (ERR, f"{type(e).__name__}: {e}")


def call(fn, *a, **kw):
    """-> ('OK', value) | ('FAIL', msg) | ('ERR', 'Type: text', type name)."""
    try:
        return ("OK", fn(*a, **kw))
    except AssertionError as e:
        return (FAIL, str(e.args[0]) if e.args else "")
    except Exception as e:  # noqa: BLE001
        return (ERR, f"{type(e).__name__}: {e}")


def graph_snapshot(evaluable):
    """Canonical, hashable snapshot of everything observable about the evaluable's graph."""
    g = evaluable._graph._graph
    return (
        tuple(sorted(g.nodes)),
        tuple(sorted((u, v, bool(d.get("inherits"))) for u, v, d in g.edges(data=True))),
    )


def import_edges(evaluable):
    g = evaluable._graph._graph
    return {(u, v) for u, v, d in g.edges(data=True) if not d.get("inherits")}


def hierarchy_edges(evaluable):
    g = evaluable._graph._graph
    return {(u, v) for u, v, d in g.edges(data=True) if d.get("inherits")}


# --------------------------------------------------------------------------- scratch space

SCRATCH_BASE = "/dev/shm" if os.path.isdir("/dev/shm") else "/var/tmp"


def scratch_dir(tag: str = "") -> str:
    """A private, pattern-neutral scratch directory below /dev/shm/vrf (unique per process)."""
    d = os.path.join(SCRATCH_BASE, "vrf", f"{os.getpid()}{tag}")
    shutil.rmtree(d, ignore_errors=True)
    for _ in range(5):  # the shared parent may be touched concurrently by other check runs
        try:
            os.makedirs(d, exist_ok=True)
            break
        except FileNotFoundError:
            continue
    return d


def remove_scratch(d: str) -> None:
    shutil.rmtree(d, ignore_errors=True)


def write_tree(base: str, files: dict[str, str], dirs=()) -> None:
    """files: relative path -> content; dirs: additional (possibly empty) directories."""
    for d in dirs:
        os.makedirs(os.path.join(base, d), exist_ok=True)
    for rel, content in files.items():
        p = os.path.join(base, rel)
        os.makedirs(os.path.dirname(p), exist_ok=True)
        with open(p, "w") as f:
            f.write(content)
