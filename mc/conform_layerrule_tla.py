"""Engine E4 for the LayerRule builder (C16 b, C13 b): TLC explores tla/LayerRuleBuilder.tla exhaustively to
MaxDepth with a history variable, checks the specification invariants on every model state and prints every
distinct state together with the class of every possible next call (REJECT / ACCEPT / FREE / DONT) and the
terminal class (MUST_ERROR / COMPLETE / DONT_CARE).  This module replays *every* model state on a fresh real
LayerRule:

  * the state's history consists of calls the model says are accepted (ACCEPT) or may be accepted (FREE): an
    ACCEPT call must be accepted; if the implementation rejects a FREE call the state is outside the model;
  * for every action of the alphabet the model's class must hold on the implementation (REJECT: raises the
    configuration error; ACCEPT: succeeds; no builder call ever raises AssertionError);
  * two specifications written separately must agree: the model's call classes with the Python automaton of
    mc/checks/c16.py, the model's terminal class with the Python automaton of mc/checks/c13.py;
  * a history whose terminal class is MUST_ERROR never yields a verdict from assert_applies (passing and failing
    architecture, also on re-application) - c13.terminal_check.
"""

from __future__ import annotations

import copy
import json
import os
import re
import shutil
import subprocess

from . import e2
from .common import VERIF_DIR, remove_scratch, scratch_dir

CFG = """SPECIFICATION Spec
CONSTANTS
 Singles = {singles}
 PairBatches = {pairs}
 OneBatches = {ones}
 Verbs = {verbs}
 PlainAccess = {plain}
 ExceptAccess = {exc}
 Anys = {anys}
 MaxDepth = {depth}
INVARIANTS TypeOK RuleNeedsArchitecture ExactlyOneSubjectLayer ObjectAfterAccessType CompleteIsWellFormed NothingWithoutArchitecture Dump
"""
INVARIANTS = ["TypeOK", "RuleNeedsArchitecture", "ExactlyOneSubjectLayer", "ObjectAfterAccessType", "CompleteIsWellFormed", "NothingWithoutArchitecture"]

CONSTS = {
    "singles": ["named:A", "named:B"],
    "pairs": ["named_list:A,B"],
    "ones": ["named_list:A"],
    "verbs": ["should", "should_only", "should_not"],
    "plain": ["access_layers_that", "be_accessed_by_layers_that"],
    "exc": ["access_layers_except_layers_that"],
    "anys": ["access_any_layer"],
}


def to_action(a: str):
    """Model action name -> action tuple of the Python automata / method tables."""
    if a.startswith("named:"):
        return ("named", a[len("named:"):])
    if a.startswith("named_list:"):
        return ("named_list", tuple(a[len("named_list:"):].split(",")))
    return (a,)


def tla_set(xs):
    return "{" + ", ".join(f'"{x}"' for x in xs) + "}"


def run_tlc(depth):
    work = scratch_dir("tlc-layerrule")
    try:
        shutil.copy(os.path.join(VERIF_DIR, "tla", "LayerRuleBuilder.tla"), work)
        with open(os.path.join(work, "LayerRuleBuilder.cfg"), "w") as f:
            f.write(CFG.format(depth=depth, **{k: tla_set(v) for k, v in CONSTS.items()}))
        p = subprocess.run(
            ["tlc", "-workers", "1", "-noGenerateSpecTE", "-deadlock", "-metadir", os.path.join(work, "meta"),
             "-config", "LayerRuleBuilder.cfg", "LayerRuleBuilder.tla"],
            cwd=work, capture_output=True, text=True, timeout=6000,
        )
        return p.returncode, p.stdout + p.stderr
    finally:
        remove_scratch(work)


def parse_states(out):
    states = []
    for line in out.splitlines():
        if line.startswith('<<"STATE", '):
            states.append(json.loads(json.loads(line[len('<<"STATE", '): -2])))
    return states


class ModelsDisagree(Exception):
    """The TLA+ model and a Python automaton classify the same history differently: a fault of the harness."""


def check_state(s, c13, c16, res, evs, mode):
    """Replay one model state; returns a list of (kind, case, expected, observed).
    mode 'builder' (C16): classes of the next call; mode 'terminal' (C13): class of assert_applies."""
    viol = []
    hist = [to_action(a) for a in s["hist"]]
    case = {"part": "layer-rule", "history": [list(a) for a in hist]}
    obj = c16.LayerRule()
    st16, st13 = (False, False, None, 0), c13.LR_INIT
    for a in hist:
        cls16, nxt16, _ = c16.lr_spec_step(st16, a)
        _, nxt13, _ = c13.lr_spec_step(st13, a)
        out = e2.apply(obj, a, c13.LR_METHODS)
        if res is not None:
            res.transitions += 1
        if out[0] == "FAIL":
            return [("builder-call-raised-assertion-error", case, "no AssertionError from a builder call", list(out))]
        if out[0] != "OK":
            if cls16 == e2.ACCEPT:
                return [("model-trace-rejected-by-implementation", case, "every ACCEPT call of the model trace accepted", list(out))]
            if res is not None:
                res.stats["layer-rule-tla:skipped (implementation rejects a free call)"] += 1
            return []
        st16, st13 = nxt16, nxt13
    if res is not None:
        res.traces += 1
        res.stats["layer-rule-tla:states"] += 1
        res.stats[f"layer-rule-tla:{s['term']}"] += 1
    # terminal class: model vs the Python automaton of C13
    py_term = c13.lr_classify(st13)
    if py_term != s["term"]:
        raise ModelsDisagree(f"history {s['hist']}: terminal class {s['term']} in LayerRuleBuilder.tla, {py_term} in c13.lr_classify")
    if mode == "terminal":
        # conformance of assert_applies with the model's terminal class (violations are recorded on res)
        c13.terminal_check(obj, st13, hist, res, lambda _st, c=s["term"]: c, "layer", evs)
        return viol
    for name, cls in sorted(s["cls"].items()):
        a = to_action(name)
        py_cls = c16.lr_spec_step(st16, a)[0]
        if py_cls != cls:
            raise ModelsDisagree(f"history {s['hist']} + {name}: call class {cls} in LayerRuleBuilder.tla, {py_cls} in c16.lr_spec_step")
        trial = copy.deepcopy(obj)
        out = e2.apply(trial, a, c13.LR_METHODS)
        if res is not None:
            res.transitions += 1
            res.stats[f"layer-rule-tla:{cls}:{out[0]}"] += 1
            if cls in (e2.REJECT, e2.ACCEPT):
                res.nontrivial += 1
        c2 = dict(case, history=case["history"] + [list(a)])
        if out[0] == "FAIL":
            viol.append(("builder-call-raised-assertion-error", c2, "no AssertionError from a builder call", list(out)))
        elif cls == e2.REJECT and (out[0] != "ERR" or out[1] not in e2.CONFIG_ERRORS):
            viol.append(("violating-call-not-rejected-with-configuration-error", c2, {"class": cls, "raises": list(e2.CONFIG_ERRORS)}, list(out)))
        elif cls == e2.ACCEPT and out[0] != "OK":
            viol.append(("well-formed-call-rejected", c2, {"class": cls}, list(out)))
    return viol


def run(res, tier, c13, c16, mode):
    depth = 6 if tier == "quick" else 7
    rc, out = run_tlc(depth)
    m = re.search(r"(\d+) states generated, (\d+) distinct states found", out)
    if "Model checking completed. No error has been found." not in out or not m:
        res.extra["fault"] = ["TLC did not complete cleanly on LayerRuleBuilder.tla:\n" + out[-3000:]]
        return
    states = parse_states(out)
    if len(states) != int(m.group(2)):
        res.extra["fault"] = [f"TLC reported {m.group(2)} distinct states but {len(states)} were dumped"]
        return
    res.extra["layerrule_tlc_distinct_states"] = int(m.group(2))
    res.extra["layerrule_tlc_depth_bound"] = depth
    res.extra["layerrule_tlc_invariants"] = INVARIANTS
    evs = c13.evaluables() if mode == "terminal" else None
    try:
        for s in states:
            res.states += 1
            for kind, case, exp, got in check_state(s, c13, c16, res, evs, mode):
                res.violation(kind, case, exp, got)
    except ModelsDisagree as e:
        res.extra["fault"] = [f"two specifications disagree: {e}"]
        return
    res.sample({"tla_state": {"hist": states[len(states) // 2]["hist"], "term": states[len(states) // 2]["term"]}})
