"""Engine E4 for the Rule builder (C13 a): TLC explores tla/RuleBuilder.tla exhaustively to
MaxDepth with a history variable, checks the specification invariants on every model state and
prints every distinct state with its class (MUST_ERROR / COMPLETE / DONT_CARE); this module

  * cross-checks the model against the independent Python automaton of mc/checks/c13.py
    (two specifications written separately must classify every history alike), and
  * replays every model state on the real Rule builder: builder calls never raise AssertionError;
    a history the model classifies MUST_ERROR never yields a verdict from assert_applies, on a
    passing and on a failing architecture, also when the same rule object is applied again.

Histories in which the implementation accepts a call the model treats as rejected (a module filter
before any subject/object marker) are outside the property and skipped.
"""

from __future__ import annotations

import json
import os
import re
import shutil
import subprocess

from .common import VERIF_DIR, remove_scratch, scratch_dir
from . import e2

CFG = """SPECIFICATION Spec
CONSTANTS
 Filters = {filters}
 Verbs = {verbs}
 PlainImports = {plain}
 ExceptImports = {exc}
 Anythings = {anys}
 MaxDepth = {depth}
INVARIANTS TypeOK FilledAfterMarker CompleteIsWellFormed ExceptImpliesImport Dump
"""


def tla_set(xs):
    return "{" + ", ".join(f'"{x}"' for x in xs) + "}"


def run_tlc(consts, depth):
    work = scratch_dir("tlc-rule")
    try:
        shutil.copy(os.path.join(VERIF_DIR, "tla", "RuleBuilder.tla"), work)
        with open(os.path.join(work, "RuleBuilder.cfg"), "w") as f:
            f.write(CFG.format(depth=depth, **{k: tla_set(v) for k, v in consts.items()}))
        p = subprocess.run(
            ["tlc", "-workers", "1", "-noGenerateSpecTE", "-deadlock", "-metadir", os.path.join(work, "meta"),
             "-config", "RuleBuilder.cfg", "RuleBuilder.tla"],
            cwd=work, capture_output=True, text=True, timeout=6000,
        )
        return p.returncode, p.stdout + p.stderr
    finally:
        remove_scratch(work)


def parse_states(out):
    states = []
    for line in out.splitlines():
        if line.startswith('<<"STATE", '):
            states.append(json.loads(json.loads(line[len('<<"STATE", ') : -2])))
    return states


def run(res, tier, c13):
    consts = {
        "filters": sorted(c13.MODULE_LIST),
        "verbs": sorted(c13.VERBS),
        "plain": sorted(k for k, v in c13.IMPORT_TYPES.items() if not v),
        "exc": sorted(k for k, v in c13.IMPORT_TYPES.items() if v),
        "anys": sorted(c13.ANYTHING),
    }
    depth = 4 if tier == "quick" else 5
    rc, out = run_tlc(consts, depth)
    m = re.search(r"(\d+) states generated, (\d+) distinct states found", out)
    if "Model checking completed. No error has been found." not in out or not m:
        res.extra["fault"] = ["TLC did not complete cleanly on RuleBuilder.tla:\n" + out[-3000:]]
        return
    states = parse_states(out)
    if len(states) != int(m.group(2)):
        res.extra["fault"] = [f"TLC reported {m.group(2)} distinct states but {len(states)} were dumped"]
        return
    res.extra["rule_tlc_distinct_states"] = int(m.group(2))
    res.extra["rule_tlc_depth_bound"] = depth
    res.extra["rule_tlc_invariants"] = ["TypeOK", "FilledAfterMarker", "CompleteIsWellFormed", "ExceptImpliesImport"]
    evs = c13.evaluables()
    for s in states:
        hist = [(a,) for a in s["hist"]]
        # (1) model vs the Python automaton, assuming exactly the early filters are rejected
        st = c13.RULE_INIT
        obj = c13.Rule()
        skipped = False
        for a in hist:
            cls, nxt, _ = c13.rule_spec_step(st, a)
            out_ = e2.apply(obj, a, c13.RULE_METHODS)
            res.transitions += 1
            if out_[0] == "FAIL":
                res.violation("builder-call-raised-assertion-error", {"part": "rule-tla", "history": [list(x) for x in hist]},
                              "no AssertionError from a builder call", list(out_))
                skipped = True
                break
            if cls == e2.DONT:
                if out_[0] == "OK":
                    skipped = True  # implementation accepts what the model treats as rejected: outside the property
                    break
                continue
            if out_[0] == "OK":
                st = nxt
            else:
                skipped = True  # implementation rejects a call the model leaves free: no requirement, state unknown to the model
                break
        res.states += 1
        res.traces += 1
        if skipped:
            res.stats["rule-tla:skipped"] += 1
            continue
        py_cls = c13.rule_classify(st)
        res.stats[f"rule-tla:{s['cls']}"] += 1
        if py_cls != s["cls"]:
            res.violation("tla-model-and-python-automaton-disagree", {"part": "rule-tla", "history": [list(x) for x in hist]},
                          {"tla": s["cls"]}, {"python": py_cls})
            continue
        # (2) conformance of the implementation with the model's class
        c13.terminal_check(obj, st, hist, res, lambda _st, c=s["cls"]: c, "rule", evs)
    res.sample({"tla_state": states[len(states) // 2]})
