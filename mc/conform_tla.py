"""Engine E4: TLC explores tla/LayerBuilder.tla exhaustively (bounded by MaxDepth, with a
history variable), checks the well-formedness invariants on every model state, and prints
every distinct state; this module then replays *every* model state against the real
LayeredArchitecture builder:

  * the state's history must be accepted call by call and the resulting definition must
    equal the model's `defs` (layers, modules, order, filter kinds, str());
  * for every action of the alphabet: enabled in the model  <=>  accepted by the
    implementation (actions that supply modules while no layer is open are outside the
    property and are skipped); a disabled action must be rejected with ImproperlyConfigured.
"""

from __future__ import annotations

import itertools
import json
import os
import re
import shutil
import subprocess

from .common import VERIF_DIR, scratch_dir, remove_scratch
from . import e2

from pytestarch import LayeredArchitecture  # noqa: E402

CFG = """SPECIFICATION Spec
CONSTANTS
 Layers = {layers}
 Mods = {mods}
 Regexes = {regexes}
 MaxDepth = {depth}
INVARIANTS OneLayerPerModule UniqueLayerNames PendingLayerIsLast NoEmptyClosedLayer Dump
"""

METHODS = {
    "layer": lambda o, n: o.layer(n),
    "cm_str": lambda o, m: o.containing_modules(m),
    "cm_list": lambda o, ms: o.containing_modules(list(ms)),
    "regex": lambda o, r: o.have_modules_with_names_matching(r),
}


def tla_set(xs):
    return "{" + ", ".join(f'"{x}"' for x in xs) + "}"


def run_tlc(layers, mods, regexes, depth):
    work = scratch_dir("tlc")
    try:
        shutil.copy(os.path.join(VERIF_DIR, "tla", "LayerBuilder.tla"), work)
        with open(os.path.join(work, "LayerBuilder.cfg"), "w") as f:
            f.write(CFG.format(layers=tla_set(layers), mods=tla_set(mods), regexes=tla_set(regexes), depth=depth))
        p = subprocess.run(
            ["tlc", "-workers", "1", "-noGenerateSpecTE", "-deadlock", "-metadir", os.path.join(work, "meta"),
             "-config", "LayerBuilder.cfg", "LayerBuilder.tla"],
            cwd=work, capture_output=True, text=True, timeout=3000,
        )
        return p.returncode, p.stdout + p.stderr
    finally:
        remove_scratch(work)


def parse_states(out):
    states = []
    for line in out.splitlines():
        if line.startswith('<<"STATE", '):
            lit = line[len('<<"STATE", ') : -2]
            states.append(json.loads(json.loads(lit)))
    return states


def expected_observable(defs):
    parts, mods = [], {}
    for d in defs:
        kind = d["kind"]
        typed = [["ModuleNameRegexFilter" if kind == "regex" else "ModuleNameFilter", m] for m in d["mods"]]
        parts.append(f"Layer {d['name']}: [{', '.join(d['mods'])}]")
        mods[d["name"]] = typed
    return {"str": "Layered Architecture: " + "; ".join(parts), "layers": [d["name"] for d in defs], "modules": mods}


def observe(o):
    names = list(o.layer_mapping.all_layers)
    return {"str": str(o), "layers": names,
            "modules": {n: [[type(f).__name__, f.identifier] for f in o[n]] for n in names}}


def key(action):
    return json.dumps(action)


def conform(states, layers, mods, regexes, depth, res):
    alphabet = [["layer", l] for l in layers] + [["cm_str", m] for m in mods]
    alphabet += [["cm_list", [m]] for m in mods] + [["cm_list", list(p)] for p in itertools.permutations(mods, 2)]
    alphabet += [["regex", r] for r in regexes]
    hists = {json.dumps(s["hist"]) for s in states}
    for s in states:
        hist = s["hist"]
        obj = LayeredArchitecture()
        ok = True
        for a in hist:
            out = e2.apply(obj, (a[0], tuple(a[1]) if isinstance(a[1], list) else a[1]), METHODS)
            res.transitions += 1
            if out[0] != "OK":
                res.violation("model-trace-rejected-by-implementation", {"part": "tla", "history": hist},
                              "every call accepted", list(out))
                ok = False
                break
        res.traces += 1
        res.stats["tla:states"] += 1
        if not ok:
            continue
        try:
            got = observe(obj)
        except Exception as e:  # noqa: BLE001
            got = {"reading the accepted definition raised": f"{type(e).__name__}: {e}"}
        exp = expected_observable(s["defs"])
        if got != exp:
            res.violation("accepted-definition-differs-from-model", {"part": "tla", "history": hist}, exp, got)
            continue
        if len(hist) >= depth:
            continue
        pending = any(d["kind"] == "pending" for d in s["defs"])
        taken = {m for d in s["defs"] for m in d["mods"]}
        for a in alphabet:
            enabled = json.dumps(hist + [a]) in hists
            if a[0] == "regex" and a[1] in taken:
                # a regex spelled like an identifier that is already assigned: the property only
                # speaks about names passed as string or list, so this call is don't-care
                res.stats["tla:dont-care"] += 1
                continue
            if not enabled and a[0] != "layer" and not pending:
                res.stats["tla:dont-care"] += 1
                continue  # modules without an open layer: outside the property
            import copy

            trial = copy.deepcopy(obj)
            out = e2.apply(trial, (a[0], tuple(a[1]) if isinstance(a[1], list) else a[1]), METHODS)
            res.transitions += 1
            res.stats["tla:enabledness-compared"] += 1
            res.nontrivial += 1
            accepted = out[0] == "OK"
            if enabled != accepted or (not enabled and out[1] != "ImproperlyConfigured"):
                res.violation(
                    "model-enabledness-differs-from-implementation",
                    {"part": "tla", "history": hist + [a]},
                    {"enabled_in_model": enabled, "rejection": "ImproperlyConfigured"}, list(out),
                )


def run(res, tier):
    layers, mods, regexes = ["L1", "L2", "L3"], ["mod_one", "one_mod", "o"], ["rx1", "mod_one"]
    depth = 5 if tier == "quick" else 6
    rc, out = run_tlc(layers, mods, regexes, depth)
    m = re.search(r"(\d+) states generated, (\d+) distinct states found", out)
    if "Model checking completed. No error has been found." not in out or not m:
        res.extra["fault"] = ["TLC did not complete cleanly:\n" + out[-3000:]]
        return
    states = parse_states(out)
    if len(states) != int(m.group(2)):
        res.extra["fault"] = [f"TLC reported {m.group(2)} distinct states but {len(states)} were dumped"]
        return
    res.extra["tlc_distinct_states"] = int(m.group(2))
    res.extra["tlc_depth_bound"] = depth
    res.extra["tlc_invariants"] = ["OneLayerPerModule", "UniqueLayerNames", "PendingLayerIsLast", "NoEmptyClosedLayer"]
    res.states += len(states)
    conform(states, layers, mods, regexes, depth, res)
    res.sample({"tla_state": states[len(states) // 2]})
