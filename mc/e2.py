"""Engine E2: breadth-first exploration of builder call histories on the *real* objects.

A node is (live object, specification-automaton state, history).  Every transition deep-copies
the live object and executes the real method on the copy; nodes are deduplicated on
(canonical snapshot of the object's full attribute state, automaton state), so the search
closes (fixpoint) whenever the reachable state space is finite and is depth-bounded
otherwise.  The independent specification automaton classifies every call:

  REJECT  the call must raise a configuration error (never succeed, never AssertionError)
  ACCEPT  the call must succeed; the automaton supplies the expected observable
  FREE    no requirement on this call, the automaton knows the successor state if it succeeds
          (if it raises, the state is unchanged)
  DONT    no requirement; followed only if the implementation rejects it (state unchanged),
          pruned if accepted because the property does not define the resulting state
"""

from __future__ import annotations

import collections
import copy

REJECT, ACCEPT, FREE, DONT = "REJECT", "ACCEPT", "FREE", "DONT"
CONFIG_ERRORS = ("ImproperlyConfigured",)


def apply(obj, action, methods):
    """Execute one action on obj. -> ('OK', None) | ('ERR', type name, text) | ('FAIL', text)"""
    name, args = action[0], action[1:]
    try:
        methods[name](obj, *args)
        return ("OK", None, "")
    except AssertionError as e:
        return ("FAIL", "AssertionError", str(e))
    except Exception as e:  # noqa: BLE001
        # the reported type is the configuration error class if the exception is one (a subclass of the
        # library's ImproperlyConfigured is still "a configuration error"), else its own class name
        names = [c.__name__ for c in type(e).__mro__]
        hit = [n for n in names if n in CONFIG_ERRORS]
        return ("ERR", hit[0] if hit else names[0], str(e))


def explore(make, actions, methods, canon, spec_init, spec_step, observe, max_depth, res,
            reject_types=CONFIG_ERRORS, on_node=None, on_dont_accepted=None):
    """Returns (states, transitions, fixpoint_reached, max_depth_seen).

    spec_step(spec_state, action) -> (cls, next_spec_state, expected_observable | None)
    observe(obj) -> observable compared with expected_observable after ACCEPT transitions.
    Violations are recorded on res with the full call history."""
    root = make()
    seen = {(canon(root), spec_init)}
    frontier = collections.deque([(root, spec_init, ())])
    transitions = 0
    deepest = 0
    open_left = False
    if on_node:
        on_node(root, spec_init, ())
    while frontier:
        obj, st, hist = frontier.popleft()
        if len(hist) >= max_depth:
            open_left = True
            continue
        for action in actions:
            cls, nxt, expected = spec_step(st, action)
            trial = copy.deepcopy(obj)
            out = apply(trial, action, methods)
            transitions += 1
            res.transitions += 1
            res.evaluations += 1
            res.traces += 1
            res.stats[f"{cls}:{out[0]}"] += 1
            h2 = hist + (action,)
            case = {"history": [list(a) for a in h2]}
            if cls == REJECT:
                if out[0] != "ERR" or out[1] not in reject_types:
                    res.violation("violating-call-not-rejected-with-configuration-error", case,
                                  {"class": cls, "raises": list(reject_types)}, list(out))
                    continue
                nxt = st  # rejected: specification state unchanged
            elif cls == ACCEPT:
                if out[0] != "OK":
                    res.violation("well-formed-call-rejected", case, {"class": cls}, list(out))
                    continue
                if expected is not None:
                    try:
                        got = observe(trial)
                    except Exception as e:  # noqa: BLE001 - reading an accepted definition must not fail
                        got = {"reading the accepted definition raised": f"{type(e).__name__}: {e}"}
                    if got != expected:
                        res.violation("accepted-definition-differs-from-what-was-supplied", case, expected, got)
                        continue
            elif cls == FREE:
                if out[0] == "FAIL":
                    res.violation("builder-call-raised-assertion-error", case, {"class": cls}, list(out))
                    continue
                if out[0] != "OK":
                    nxt = st
            else:  # DONT
                if out[0] == "OK":
                    # the property does not define the resulting state: prune; an optional weak check may
                    # still look at the accepted object (e.g. nothing supplied earlier was dropped)
                    if on_dont_accepted is not None:
                        w = on_dont_accepted(trial, st, action)
                        if w:
                            res.violation(w[0], case, w[1], w[2])
                    continue
                if out[0] == "FAIL":
                    res.violation("builder-call-raised-assertion-error", case, {"class": cls}, list(out))
                    continue
                nxt = st
            key = (canon(trial), nxt)
            if key in seen:
                continue
            seen.add(key)
            deepest = max(deepest, len(h2))
            if on_node:
                on_node(trial, nxt, h2)
            frontier.append((trial, nxt, h2))
    res.states += len(seen)
    return len(seen), transitions, not open_left, deepest


def generic_canon(x, _depth=0):
    """Hashable canonical form of an arbitrary object graph: every attribute takes part, so a
    field added to the implementation is automatically part of the explored state."""
    import functools
    import types

    if _depth > 12:
        return ("...",)
    if x is None or isinstance(x, (bool, int, float, str, bytes)):
        return x
    if isinstance(x, (list, tuple)):
        return (type(x).__name__,) + tuple(generic_canon(i, _depth + 1) for i in x)
    if isinstance(x, (set, frozenset)):
        return ("set",) + tuple(sorted((generic_canon(i, _depth + 1) for i in x), key=repr))
    if isinstance(x, dict):
        return ("dict",) + tuple((generic_canon(k, _depth + 1), generic_canon(v, _depth + 1)) for k, v in x.items())
    if isinstance(x, functools.partial):
        return ("partial", generic_canon(x.func, _depth + 1), generic_canon(x.args, _depth + 1),
                generic_canon(x.keywords, _depth + 1))
    if isinstance(x, (types.FunctionType, types.MethodType, type)):
        return ("callable", getattr(x, "__qualname__", repr(x)))
    if hasattr(x, "__dict__"):
        return (type(x).__name__,) + tuple((k, generic_canon(v, _depth + 1)) for k, v in sorted(vars(x).items()))
    return ("repr", repr(x))


def replay_history(make, methods, history):
    """Plain replay of one recorded history without the explorer: list of outcomes."""
    obj = make()
    outs = []
    for a in history:
        outs.append(apply(obj, tuple(_t(x) for x in a), methods))
    return obj, outs


def _t(x):
    return x
