"""Sharded exhaustive runner: plans the enumeration, executes shards on worker processes,
merges coverage counts, handles violations (dedupe, replay file, double confirmation in a
fresh interpreter, known-findings filter), writes the evidence file, sets the exit code."""

from __future__ import annotations

import collections
import hashlib
import json
import multiprocessing as mp
import os
import subprocess
import sys
import time

from .common import PTA_SRC, VERIF_DIR

MAX_VIOLATIONS_PER_SHARD = 40
MAX_SIGNATURES_REPORTED = 12


class Result:
    """Coverage of one shard (or the merge of several)."""

    def __init__(self, bound: str = "all"):
        self.bound = bound
        self.stats = collections.Counter()  # free-form outcome histogram
        self.states = 0  # distinct explored configurations
        self.transitions = 0  # implementation executions
        self.traces = 0  # executions compared with the reference model / automaton
        self.evaluations = 0
        self.nontrivial = 0
        self.violations: list[dict] = []
        self.violation_count = 0
        self.samples: list = []
        self.by_bound: dict[str, collections.Counter] = {}
        self.extra: dict = {}

    def violation(self, kind, case, expected, observed, signature=None):
        self.violation_count += 1
        if len(self.violations) < MAX_VIOLATIONS_PER_SHARD:
            self.violations.append(
                {
                    "kind": kind,
                    "case": case,
                    "expected": expected,
                    "observed": observed,
                    "signature": signature,
                }
            )

    def sample(self, s, limit=2):
        if len(self.samples) < limit:
            self.samples.append(s)

    def finish(self):
        c = collections.Counter(
            states=self.states,
            transitions=self.transitions,
            traces=self.traces,
            evaluations=self.evaluations,
            nontrivial=self.nontrivial,
            violations=self.violation_count,
        )
        c.update({f"o:{k}": v for k, v in self.stats.items()})
        self.by_bound = {self.bound: c}
        return self

    def merge(self, other: "Result"):
        self.stats.update(other.stats)
        self.states += other.states
        self.transitions += other.transitions
        self.traces += other.traces
        self.evaluations += other.evaluations
        self.nontrivial += other.nontrivial
        self.violation_count += other.violation_count
        self.violations.extend(other.violations)
        for s in other.samples:
            if len(self.samples) < 5:
                self.samples.append(s)
        for b, c in other.by_bound.items():
            self.by_bound.setdefault(b, collections.Counter()).update(c)
        for k, v in other.extra.items():
            if isinstance(v, (int, float)):
                self.extra[k] = self.extra.get(k, 0) + v
            elif isinstance(v, list):
                self.extra.setdefault(k, [])
                for x in v:
                    if x not in self.extra[k]:
                        self.extra[k].append(x)
            else:
                self.extra[k] = v


class ShardTimeout(BaseException):  # BaseException: must not be swallowed by the harness adapters that record "any Exception" as an observation
    pass


def _alarm(signum, frame):
    raise ShardTimeout()


def _worker(args):
    modname, shard, tier, seed = args
    import importlib
    import signal

    mod = importlib.import_module(modname)
    # watchdog: a changed implementation may loop forever (e.g. a list that grows while it is
    # iterated); a shard that exceeds the limit is reported as a fault instead of hanging the run
    limit = int(os.environ.get("VERIF_SHARD_TIMEOUT", "900" if tier == "quick" else "7200"))
    try:
        signal.signal(signal.SIGALRM, _alarm)
        signal.alarm(limit)
    except (ValueError, AttributeError):  # not in the main thread of the worker
        pass
    try:
        res = mod.run_shard(shard, tier, seed)
        signal.alarm(0)
        for v in res.violations:
            v["_shard"] = shard
    except ShardTimeout:
        r = Result("harness-fault")
        r.extra["fault"] = [f"shard exceeded the {limit}s watchdog (implementation does not terminate or is pathologically slow): {json.dumps(shard, default=str)[:300]}"]
        return r.finish()
    except Exception as e:  # noqa: BLE001
        import traceback

        tb = traceback.extract_tb(e.__traceback__)
        src = os.path.realpath(PTA_SRC)
        if tb and os.path.realpath(tb[-1].filename).startswith(src + os.sep):
            # the exception was raised inside the implementation under test at a point where the check
            # expects none (building an architecture, scanning a valid tree, defining layers ...): on the
            # unchanged tree this never happens, so it is reported as a violation of the property, replayed
            # by re-running the shard
            r = Result(shard.get("bound", "all") if isinstance(shard, dict) else "all")
            r.violation("implementation-raised-where-the-property-promises-a-result", {"shard": shard},
                        "no exception", f"{type(e).__name__}: {e} at {os.path.relpath(tb[-1].filename, src)}:{tb[-1].lineno}",
                        signature=f"implementation-raised:{type(e).__name__}:{os.path.relpath(tb[-1].filename, src)}")
            for v in r.violations:
                v["_shard"] = shard
                v["_raised"] = True
            return r.finish()
        # harness fault inside a shard: surface it, never swallow
        r = Result("harness-fault")
        r.extra["fault"] = [f"{type(e).__name__}: {e}\n{traceback.format_exc()}"]
        return r.finish()
    return res.finish()


def signature_of(prop: str, v: dict) -> str:
    if v.get("signature"):
        return v["signature"]
    blob = json.dumps([v["kind"], v["case"]], sort_keys=True, default=str)
    return hashlib.sha1(blob.encode()).hexdigest()[:16]


def load_known_findings(prop: str):
    path = os.path.join(VERIF_DIR, "known_findings.txt")
    known = {}
    if not os.path.exists(path):
        return known
    for line in open(path):
        line = line.strip()
        if not line.startswith("open:"):
            continue
        parts = line[len("open:") :].split()
        kv = dict(p.split("=", 1) for p in parts[:2] if "=" in p)
        if kv.get("property") == prop and "signature" in kv:
            known[kv["signature"]] = " ".join(parts[2:])
    return known


def write_evidence(prop, tier, seed, total: Result, mod, wall, exhaustive, reported):
    cov = {
        "states": total.states,
        "transitions": total.transitions,
        "traces_validated_against_impl": total.traces,
        "samples": total.samples[:5] or ["(no sample recorded)"],
        "evaluations": total.evaluations or total.transitions,
        "distinct_nontrivial": total.nontrivial,
        "rule": getattr(mod, "RULE", ""),
        "exhaustive": bool(exhaustive),
        "bounds_completed": {b: dict(c) for b, c in sorted(total.by_bound.items())},
        "outcomes": {str(k): v for k, v in sorted(total.stats.items(), key=lambda kv: str(kv[0]))},
        "implementation": os.path.abspath(PTA_SRC),
    }
    cov.update({k: v for k, v in total.extra.items() if k != "fault"})
    ev = {
        "property_id": prop,
        "tier": tier,
        "seed": seed,
        "level": "model_checking",
        "coverage": cov,
        "assumptions": list(getattr(mod, "ASSUMPTIONS", [])),
        "wall_s": round(wall, 2),
        "violations": reported,
    }
    out_dir = os.environ.get("VERIF_EVIDENCE_DIR", os.path.join(VERIF_DIR, "evidence"))
    os.makedirs(out_dir, exist_ok=True)
    path = os.path.join(out_dir, f"{prop}.json")
    tmp = path + ".tmp"
    with open(tmp, "w") as f:
        json.dump(ev, f, indent=1, sort_keys=True, default=str)
        f.write("\n")
    os.replace(tmp, path)
    return path


def confirm(replay_path: str) -> bool:
    """Re-execute one replay file twice in fresh interpreters; both must reproduce."""
    ok = True
    for _ in range(2):
        p = subprocess.run(
            [sys.executable, os.path.join(VERIF_DIR, "replay.py"), replay_path],
            capture_output=True,
            text=True,
            cwd=VERIF_DIR,
        )
        ok = ok and p.returncode == 1
    return ok


def execute(mod, tier: str, seed: int) -> int:
    prop = mod.ID
    t0 = time.time()
    plan = mod.plan(tier, seed)
    shards = plan["shards"]
    # smoke run of a large plan (VERIF_SHARD_STRIDE=n): every n-th shard only, so that every kind of shard of a long
    # thorough plan is exercised in minutes; such a run is never exhaustive and does not apply the vacuity guards
    stride = int(os.environ.get("VERIF_SHARD_STRIDE", "1"))
    if stride > 1:
        shards = shards[::stride]
        plan = dict(plan, shards=shards, require_nonzero=[], exhaustive=False)
    procs = int(os.environ.get("VERIF_PROCS", os.cpu_count() or 4))
    total = Result()
    args = [(mod.__name__, s, tier, seed) for s in shards]
    if procs <= 1 or len(shards) <= 1:
        results = map(_worker, args)
        for r in results:
            total.merge(r)
    else:
        ctx = mp.get_context("fork")
        # one fresh forked process per shard: a shard's outcome never depends on which shards ran
        # before it in the same worker, so a whole shard can be replayed from a fresh interpreter
        with ctx.Pool(min(procs, len(shards)), maxtasksperchild=1) as pool:
            for r in pool.imap_unordered(_worker, args, chunksize=1):
                total.merge(r)
    wall = time.time() - t0
    for b, c in sorted(total.by_bound.items()):
        outs = {k[2:]: v for k, v in c.items() if k.startswith("o:")}
        print(
            f"bound {b} states={c['states']} transitions={c['transitions']} "
            f"validated={c['traces']} nontrivial={c['nontrivial']} outcomes={outs}"
        )
    if "fault" in total.extra:
        print("HARNESS FAULT in shard:\n" + total.extra["fault"][0])
        write_evidence(prop, tier, seed, total, mod, wall, False, 0)
        return 2
    # vacuity guards
    missing = [k for k in plan.get("require_nonzero", []) if not total.stats.get(k)]
    if missing and not total.violations:
        # (with violations the missing outcomes are a consequence of cases ending early at the
        # disagreement; the violations are reported below instead)
        print(f"HARNESS FAULT: vacuous run, no case with outcome(s) {missing}")
        write_evidence(prop, tier, seed, total, mod, wall, False, 0)
        return 2

    # violations
    known = load_known_findings(prop)
    by_sig: dict[str, dict] = {}
    # minimisation re-executes the implementation many times per violation; a change that breaks thousands of
    # cases would keep the (sequential) parent busy for an hour.  After a time budget only violations of a kind
    # not yet represented are still minimised; the others are counted (violating_cases) but not turned into
    # further replay files.
    budget = float(os.environ.get("VERIF_MINIMISE_BUDGET", "60" if tier == "quick" else "600"))
    t_min = time.time()
    kinds_seen = set()
    skipped = 0
    for v in total.violations:
        if time.time() - t_min > budget and v["kind"] in kinds_seen:
            skipped += 1
            continue
        kinds_seen.add(v["kind"])
        if hasattr(mod, "minimise") and not v.get("_raised"):
            try:
                v = mod.minimise(v)
            except Exception:  # minimisation is best effort
                pass
        sig = signature_of(prop, v)
        v["signature"] = sig
        by_sig.setdefault(sig, v)
    if skipped:
        print(f"({skipped} further violating cases of kinds already reported were not minimised: time budget {budget:.0f}s)")
    reported = 0
    known_hit = []
    rc = 0
    shard_confirmed: dict = {}
    for sig, v in sorted(by_sig.items()):
        if sig in known:
            known_hit.append(sig)
            continue
        if reported >= MAX_SIGNATURES_REPORTED:
            break
        rdir = os.path.join(
            os.environ.get("VERIF_REPLAY_DIR", os.path.join(VERIF_DIR, "replays")), prop
        )
        os.makedirs(rdir, exist_ok=True)
        h = hashlib.sha1(sig.encode()).hexdigest()[:12]
        path = os.path.join(rdir, f"{h}.json")
        with open(path, "w") as f:
            json.dump({"property": prop, **{k: x for k, x in v.items() if k not in ("_shard", "_raised")}}, f, indent=1, sort_keys=True, default=str)
            f.write("\n")
        if v.get("_raised") or not confirm(path):
            # the case alone does not reproduce: the failure depends on what the implementation
            # was asked before within the same shard (hidden state); replay the whole shard
            shard_rec = {"property": prop, "kind": v["kind"], "signature": sig, "shard": v.get("_shard"),
                         "tier": tier, "seed": seed, "case": v["case"], "expected": v["expected"],
                         "observed": v["observed"],
                         "note": "history-dependent: reproduces only after the preceding cases of this shard"}
            with open(path, "w") as f:
                json.dump(shard_rec, f, indent=1, sort_keys=True, default=str)
                f.write("\n")
            # one confirmation per (shard, kind): re-running the same shard for every further violation of the
            # same kind found in it would prove nothing new and costs a full shard run each time
            skey = (json.dumps(v.get("_shard"), sort_keys=True, default=str), v["kind"])
            if v.get("_shard") is not None and skey not in shard_confirmed:
                shard_confirmed[skey] = confirm(path)
            if v.get("_shard") is None or not shard_confirmed[skey]:
                print(
                    f"HARNESS FAULT: violation does not reproduce from a fresh interpreter: {path}"
                )
                rc = max(rc, 2)
                continue
            print("  (history-dependent violation: the replay file re-runs the enclosing shard)")
        print(f"VIOLATION property={prop} replay={path}")
        print(f"  kind={v['kind']} signature={sig}")
        print(f"  expected={json.dumps(v['expected'], default=str)[:300]}")
        print(f"  observed={json.dumps(v['observed'], default=str)[:300]}")
        reported += 1
        rc = max(rc, 1) if rc != 2 else 2
    for sig in known_hit:
        print(f"KNOWN-FINDING: property={prop} {known[sig]}")
    # a cap reported by any shard (keys ending in cap_hit / capped) makes the run non-exhaustive
    exhaustive = plan.get("exhaustive", True) and not any(
        k.endswith("cap_hit") or k.endswith("capped") or k == "new_global_locations" for k in total.extra
    )
    path = write_evidence(prop, tier, seed, total, mod, wall, exhaustive, reported)
    print(
        f"{prop} tier={tier} seed={seed} shards={len(shards)} states={total.states} "
        f"transitions={total.transitions} validated={total.traces} "
        f"violating_cases={total.violation_count} distinct_reported={reported} "
        f"wall={wall:.1f}s evidence={path}"
    )
    return rc
