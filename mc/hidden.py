"""Hidden process-wide state of the implementation under test.

History-independence (C15) is explored with canonical-state deduplication; for that to be sound
the canonical state has to contain *everything* a later evaluation could read: the shared
objects themselves (``e2.generic_canon`` walks every attribute) and whatever the implementation
keeps at module or class level.  This module finds that process-wide part by introspection of
all loaded ``pytestarch`` modules: module-level and class-level mutable containers, and
``functools`` caches.  Containers can be canonicalised and restored; the *content* of an
``lru_cache`` cannot be read, so a non-empty cache makes the state ``opaque`` (never merged
with another state) and is reset with ``cache_clear``.
"""

from __future__ import annotations

import copy
import itertools
import sys

from .e2 import generic_canon

_MUTABLE = (dict, list, set, bytearray)
_opaque_counter = itertools.count()


def _is_cache(v):
    return callable(v) and hasattr(v, "cache_info") and hasattr(v, "cache_clear")


def locations():
    """[(owner object, attribute name, label)] of every process-wide mutable location."""
    out = []
    for mname in sorted(sys.modules):
        if mname != "pytestarch" and not mname.startswith("pytestarch."):
            continue
        mod = sys.modules[mname]
        if mod is None:
            continue
        for k, v in list(vars(mod).items()):
            if k.startswith("__"):
                continue
            if isinstance(v, _MUTABLE) or _is_cache(v):
                out.append((mod, k, f"{mname}.{k}"))
            elif isinstance(v, type) and getattr(v, "__module__", None) == mname:
                for ck, cv in list(vars(v).items()):
                    if ck.startswith("__"):
                        continue
                    raw = cv.__func__ if isinstance(cv, (staticmethod, classmethod)) else cv
                    if isinstance(raw, _MUTABLE) or _is_cache(raw):
                        out.append((v, ck, f"{mname}.{k}.{ck}"))
    return out


def _value(owner, name):
    v = vars(owner)[name]
    return v.__func__ if isinstance(v, (staticmethod, classmethod)) else v


class GlobalState:
    """Snapshot taken before any evaluation; ``canon()`` describes the current process-wide
    state, ``reset()`` brings it back to the snapshot.  The set of locations is computed once
    (all pytestarch modules are imported before); ``new_locations()`` reports locations that
    appeared later (lazily created globals) and is called by the checks once per explored case
    group - such a location makes the run non-exhaustive and is reported in the evidence."""

    def __init__(self):
        self.locs = locations()
        self.labels = {label for _, _, label in self.locs}
        self.initial = {}
        self.initial_canon = {}
        for owner, name, label in self.locs:
            v = _value(owner, name)
            if not _is_cache(v):
                self.initial[label] = copy.deepcopy(v)
                self.initial_canon[label] = generic_canon(v)

    def canon(self):
        parts = []
        for owner, name, label in self.locs:
            v = _value(owner, name)
            if _is_cache(v):
                size = v.cache_info().currsize
                if size:
                    parts.append((label, "opaque-cache", size, next(_opaque_counter)))
            else:
                parts.append((label, generic_canon(v)))
        return tuple(parts)

    def new_locations(self):
        return [label for _, _, label in locations() if label not in self.labels]

    def reset(self):
        for owner, name, label in self.locs:
            v = _value(owner, name)
            if _is_cache(v):
                if v.cache_info().currsize:
                    v.cache_clear()
                continue
            if generic_canon(v) == self.initial_canon[label]:
                continue
            init = copy.deepcopy(self.initial[label])
            if isinstance(v, dict):
                v.clear()
                v.update(init)
            elif isinstance(v, list):
                v[:] = init
            elif isinstance(v, set):
                v.clear()
                v.update(init)
            elif isinstance(v, bytearray):
                v[:] = init

    def describe(self):
        return [label for _, _, label in self.locs]
