"""Adapters between the enumerated spaces and the real pytestarch API."""

from __future__ import annotations

import itertools
import random

from . import common  # noqa: F401  (binds the implementation under test)
from .common import arch
from .spaces import (
    unrelated,
    KINDS,
    SHAPES,
    admissible_pairs,
    nodes,
    subject_choices,
    subject_object_choices,
    trees,
)

from pytestarch import LayeredArchitecture, LayerRule, Rule  # noqa: E402

IMPORT_METHOD = {
    (True, False): "import_modules_that",
    (True, True): "import_modules_except_modules_that",
    (False, False): "be_imported_by_modules_that",
    (False, True): "be_imported_by_modules_except_modules_that",
}
ACCESS_METHOD = {
    (True, False): "access_layers_that",
    (True, True): "access_layers_except_layers_that",
    (False, False): "be_accessed_by_layers_that",
    (False, True): "be_accessed_by_layers_except_layers_that",
}


def _present(xs, seed: int, sequence=False):
    """Presentation of a list-valued argument: order depends on the seed only.  sequence=True: the parameter is
    documented as 'str | Sequence[str]' (module rules), so a batch is handed over as a list or as a tuple -
    which of the two depends on the names' lengths and the seed, so both occur under every seed."""
    xs = list(xs)
    if seed % 3 == 1:
        xs.reverse()
    elif seed % 3 == 2 and len(xs) > 1:
        xs = xs[1:] + xs[:1]
    if len(xs) == 1 and seed % 2 == 0:
        return xs[0]
    if sequence and (sum(map(len, xs)) + len(xs) + seed) % 2:
        return tuple(xs)
    return xs


def mkrule(spec: dict, seed: int = 0):
    """Build a real Rule from a spec (verb, imp, exc, sk, subj, ok, obj | anything)."""
    r = Rule().modules_that()
    subj = _present(spec["subj"], seed, sequence=True)
    if spec["sk"] == "regex":
        r = r.have_name_matching(spec["subj"][0])
    else:
        r = (r.are_named if spec["sk"] == "named" else r.are_sub_modules_of)(subj)
    r = getattr(r, spec["verb"])()
    if spec.get("anything"):
        return r.import_anything() if spec["imp"] else r.be_imported_by_anything()
    r = getattr(r, IMPORT_METHOD[(spec["imp"], spec["exc"])])()
    obj = _present(spec["obj"], seed, sequence=True)
    if spec["ok"] == "regex":
        return r.have_name_matching(spec["obj"][0])
    return (r.are_named if spec["ok"] == "named" else r.are_sub_modules_of)(obj)


def mk_layered_architecture(layer_defs, seed: int = 0):
    """layer_defs: list of (name, ('names', [modules]) | ('regex', pattern))."""
    la = LayeredArchitecture()
    for name, (style, val) in layer_defs:
        la = la.layer(name)
        if style == "names":
            la = la.containing_modules(_present(val, seed))
        else:
            la = la.have_modules_with_names_matching(val)
    return la


def mk_layer_rule(la, spec: dict, seed: int = 0, base=None):
    """base: a LayerRule().based_on(la) object shared by several rules (each rule starts again at
    layers_that()); None = a fresh LayerRule."""
    r = (base if base is not None else LayerRule().based_on(la)).layers_that().are_named(spec["subj"])
    r = getattr(r, spec["verb"])()
    if spec.get("anything"):
        return r.access_any_layer() if spec["imp"] else r.be_accessed_by_any_layer()
    r = getattr(r, ACCESS_METHOD[(spec["imp"], spec["exc"])])()
    return r.are_named(_present(spec["obj"], seed))


# ------------------------------------------------------------------ graph shards

EXTERNALS = ("e", "e.p")

# fixed family of larger forests (DESIGN 2.1, Space B): depth-3 trees, 7-9 nodes with externals
BIG_TREES = (
    (((((),),), ()), ((),)),  # r.a.a.a(.a) r.a.b r.b.a  -> depth 4
    ((((), ()), ()), ((),)),  # r.a.a.{a,b}, r.a.b, r.b.a
    ((((),), ((),)), ()),  # r.a.a.a, r.a.b.a, r.b
    ((((), ()),), ((),), ()),  # r.a.a.{a,b}, r.b.a, r.c
)


def plan_graph_shards(space, n_max=None, k=None, chunk=64, parts=8, with_ext=False, tree_list=None, n_min=2):
    """Shard descriptors.  space 'A': complete relations over trees with <= n_max nodes;
    'B': relations with exactly j edges (j = 0..k) over given trees, root/ancestor
    importees and (optionally) externals included."""
    shards = []
    if space == "A":
        for n in range(n_min, n_max + 1):
            for t in trees(n):
                ns = nodes(t)
                total = 1 << len(admissible_pairs(ns))
                for lo in range(0, total, chunk):
                    shards.append(
                        {"space": "A", "tree": t, "lo": lo, "hi": min(total, lo + chunk),
                         "bound": f"A({n_max}) complete"}
                    )
    elif space == "N":
        # package importers: a module that has sub modules imports an unrelated module (realizable
        # through a module file next to a package directory of the same stem, pkg.py + pkg/)
        tl = tree_list if tree_list is not None else [t for n in range(n_min, n_max + 1) for t in trees(n)]
        for t in tl:
            if not _nonleaf_pairs(nodes(t)):
                continue
            for j in range(1, k + 1):
                for i in range(parts):
                    shards.append({"space": "N", "tree": t, "edges": j, "i": i, "n": parts,
                                   "bound": f"N(n={len(nodes(t))}) package importers edges={j}"})
    else:
        tl = tree_list if tree_list is not None else [t for n in range(n_min, n_max + 1) for t in trees(n)]
        for t in tl:
            for j in range(0, k + 1):
                p = 1 if j == 0 else parts
                for i in range(p):
                    shards.append(
                        {"space": "B", "tree": t, "edges": j, "i": i, "n": p, "ext": with_ext,
                         "bound": f"B{'+ext' if with_ext else ''}(n={len(nodes(t))}) edges={j}"}
                    )
    return shards


def _nonleaf_pairs(ns):
    """Imports made by a module that has sub modules: of modules unrelated to it, and of its own
    descendants two or more levels below (a direct child is excluded: the implementation folds that
    import into the hierarchy edge, and such graphs are outside every property)."""
    inner = [n for n in ns[1:] if any(m.startswith(n + ".") for m in ns)]
    out = [(u, v) for u in inner for v in ns[1:] if u != v and not v.startswith(u + ".") and not u.startswith(v + ".")]
    out += [(u, v) for u in inner for v in ns[1:] if v.startswith(u + ".") and v.count(".") >= u.count(".") + 2]
    return out


def shard_graphs(shard, seed: int = 0):
    """Yield (ns, I) for a shard; ns in pre-order, I a list of (importer, importee)."""
    t = _tuplify(shard["tree"])
    if shard["space"] == "N":
        ns = nodes(t)
        special = _nonleaf_pairs(ns)
        pairs = admissible_pairs(ns, root_importee=False) + special
        idx = 0
        for sub in itertools.combinations(pairs, shard["edges"]):
            if not any(e in special for e in sub):
                continue
            if idx % shard["n"] == shard["i"]:
                yield ns, list(sub)
            idx += 1
        return
    if shard["space"] == "A":
        ns = nodes(t)
        pairs = admissible_pairs(ns)
        for bits in range(shard["lo"], shard["hi"]):
            yield ns, [pairs[i] for i in range(len(pairs)) if bits >> i & 1]
    else:
        ns = nodes(t)
        ext = list(EXTERNALS) if shard.get("ext") else []
        allns = ns + ext
        pairs = admissible_pairs(allns, root_importee=True, externals=ext)
        for idx, sub in enumerate(itertools.combinations(pairs, shard["edges"])):
            if idx % shard["n"] == shard["i"]:
                yield allns, list(sub)


def _tuplify(t):
    return tuple(_tuplify(c) for c in t)


def build(ns, I, seed: int = 0, level_limit=None, phantom=False, implicit=False):
    """Evaluable for (ns, I); the seed only permutes the order in which modules and imports
    are handed to the constructor.  phantom=True additionally hands over imports whose importee is
    not a module of the architecture (what the scanner produces for an import of a module removed
    by an exclusion, or of a name that is not a module): every leaf imports the same two such
    names; they must add neither modules nor imports."""
    ms, imps = list(ns), list(I)
    if implicit:
        # only the leaf modules are handed over; their ancestor packages exist because the hierarchy
        # implies them (what a scan with module_path below root_path produces for the packages above it)
        ms = [x for x in ns if not any(y.startswith(x + ".") for y in ns)]
    if phantom:
        lv = [x for x in ns if not any(y.startswith(x + ".") for y in ns) and x != ns[0]]
        for u in lv:
            imps.append((u, ns[0] + ".zz_excluded"))
            imps.append((u, ns[0] + ".zz_pkg.zz_missing"))
    if seed:
        rnd = random.Random(seed)
        rnd.shuffle(ms)
        rnd.shuffle(imps)
    return arch(ms, imps, level_limit)


# -------------------------------------------------------------------- rule spaces


def overlap_choices(ns, exclude=()):
    """(subjects, objects) over pairwise unrelated modules where at least one module is listed on
    both sides of the rule (e.g. [api, core] ... except [core, util])."""
    cand = [x for x in ns if x not in exclude]
    out = []
    for k in (1, 2, 3):
        for xs in itertools.combinations(cand, k):
            if not unrelated(xs):
                continue
            subsets = [c for j in range(1, k + 1) for c in itertools.combinations(xs, j)]
            for subj in subsets:
                for obj in subsets:
                    if set(subj) & set(obj) and set(subj) | set(obj) == set(xs):
                        out.append((subj, obj))
    return out


def related_batch_choices(ns, exclude=()):
    """(subjects, objects): a batch of 2-3 modules containing at least one ancestor/descendant
    pair on one side, a single module unrelated to all of them on the other side.  For plain
    should / should_not rules the statement of C11 pins the meaning (conjunction over the batch)."""
    cand = [x for x in ns if x not in exclude]
    out = []
    for k in (2, 3):
        for batch in itertools.combinations(cand, k):
            if unrelated(batch):
                continue
            for s in cand:
                if s in batch or any(a == s or a.startswith(s + ".") or s.startswith(a + ".") for a in batch):
                    continue
                out.append(((s,), batch))
                out.append((batch, (s,)))
    return out


def rule_specs(ns, max_s=3, max_o=3, antichain=True, exclude=None, aliases=True, kinds=KINDS, overlap=False):
    """All rule specs of R(G) over the module names ns (root excluded by default).
    overlap=True adds the rules in which a module is both subject and object (same filter kind on
    both sides)."""
    exclude = (ns[0],) if exclude is None else exclude
    out = []
    if overlap:
        for subj, obj in related_batch_choices(ns, exclude):
            for sk in kinds:
                for ok in kinds:
                    for verb in ("should", "should_not"):
                        for imp in (True, False):
                            out.append(dict(verb=verb, imp=imp, exc=False, sk=sk, subj=subj, ok=ok, obj=obj))
        for subj, obj in overlap_choices(ns, exclude):
            for kind in kinds:
                for verb, imp, exc in SHAPES:
                    out.append(dict(verb=verb, imp=imp, exc=exc, sk=kind, subj=subj, ok=kind, obj=obj))
    for subj, obj in subject_object_choices(ns, max_s, max_o, antichain, exclude):
        for sk in kinds:
            for ok in kinds:
                for verb, imp, exc in SHAPES:
                    out.append(
                        dict(verb=verb, imp=imp, exc=exc, sk=sk, subj=subj, ok=ok, obj=obj)
                    )
    if aliases:
        for subj in subject_choices(ns, max_s, antichain, exclude):
            for sk in kinds:
                for imp in (True, False):
                    out.append(
                        dict(verb="should_not", imp=imp, exc=False, sk=sk, subj=subj,
                             ok=None, obj=None, anything=True)
                    )
    return out
