"""Reference models (DESIGN §3).  Boring set comprehensions over
(modules, dotted-name hierarchy, import set); no code shared with pytestarch, no networkx."""

from __future__ import annotations

import itertools
import re

from .spaces import anc


def S(kind: str, x: str, ns) -> set[str]:
    """Module set a specification stands for: named X = X and all descendants,
    sub modules of X = strict descendants."""
    d = {n for n in ns if n == x or anc(x, n)}
    return d if kind == "named" else d - {x}


def spec_to_json(spec: dict) -> dict:
    out = dict(spec)
    for k in ("subj", "obj"):
        if k in out and out[k] is not None:
            out[k] = list(out[k])
    return out


def rule_expectation(ns, I, spec: dict, parent_inside: bool, joint: bool = True, self_pairs: bool = True):
    """Violating sets of a module rule under one reading of the documentation.

    spec: verb, imp, exc, sk, subj, ok, obj, anything(optional)
    Returns (real, miss): real = set of (subject-side module, other module) imports that
    are forbidden; miss = {(subject is 'sub modules of', subject, is 'any other' form):
    sorted tuple of (qualifier, object)} for required-but-missing imports.
    Readings: parent_inside - for a subject 'sub modules of X', an import X.y -> X is not
    'something else'; joint - 'anything' with several subjects excepts all subjects jointly;
    self_pairs - when a module is listed both as subject and as object, the pair (X, X) takes
    part in the per-pair 'edge' requirements (imports inside X) or is skipped.
    """
    verb, imp, exc = spec["verb"], spec["imp"], spec["exc"]
    sk, subj = spec["sk"], tuple(spec["subj"])
    if spec.get("anything"):
        ok, obj, exc = sk, subj, True
    else:
        ok, obj = spec["ok"], tuple(spec["obj"])
    Ssets = {s: S(sk, s, ns) for s in subj}
    Osets = {o: S(ok, o, ns) for o in obj}
    E = I if imp else {(v, u) for u, v in I}  # orient: first component = subject side

    def edges(s, o):
        return {(u, v) for u, v in E if u in Ssets[s] and v in Osets[o]}

    def others(s):
        if spec.get("anything") and not joint:
            allO = Ssets[s]
        else:
            allO = set().union(*Osets.values())
        return {
            (u, v)
            for u, v in E
            if u in Ssets[s]
            and v not in Ssets[s]
            and v not in allO
            and not (sk == "sub" and v == s and parent_inside)
        }

    need_edge = verb in ("should", "should_only") and not exc
    forbid_edge = (verb == "should_not" and not exc) or (verb == "should_only" and exc)
    need_other = verb in ("should", "should_only") and exc
    forbid_other = (verb == "should_not" and exc) or (
        verb == "should_only" and not exc
    )
    real, miss = set(), {}
    q = "a sub module of " if ok == "sub" else ""
    for s in subj:
        if need_edge:
            m = [o for o in obj if not edges(s, o) and (self_pairs or o != s)]
            if m:
                miss[(sk == "sub", s, False)] = tuple(sorted((q, o) for o in m))
        if forbid_edge:
            for o in obj:
                if self_pairs or o != s:
                    real |= edges(s, o)
        if need_other and not others(s):
            miss[(sk == "sub", s, True)] = tuple(sorted((q, o) for o in obj))
        if forbid_other:
            real |= others(s)
    return real, miss


def rule_readings(spec):
    """All admissible readings for a spec, as kwargs dicts."""
    pis = (True, False) if spec["sk"] == "sub" else (True,)
    js = (True, False) if spec.get("anything") and len(spec["subj"]) > 1 else (True,)
    overlap = (not spec.get("anything")) and bool(set(spec["subj"]) & set(spec.get("obj") or ()))
    sp = (True, False) if overlap else (True,)
    return [dict(parent_inside=p, joint=j, self_pairs=x) for p in pis for j in js for x in sp]


def rule_three_valued(ns, I, spec):
    """-> (must_real, may_real, must_miss_keys, verdicts) over all readings.

    verdicts: set of booleans (True = passes) the readings yield; a singleton means judged."""
    results = [rule_expectation(ns, I, spec, **r) for r in rule_readings(spec)]
    reals = [r for r, _ in results]
    misses = [m for _, m in results]
    must_real = set.intersection(*reals)
    may_real = set.union(*reals)
    verdicts = {(not r and not m) for r, m in results}
    return must_real, may_real, misses, verdicts


# ------------------------------------------------------------------ message grammar

LINE_REAL = re.compile(
    r'^"([^"]+)"( \((?:no layer|layer "[^"]+")\))? (imports|is imported by) '
    r'"([^"]+)"( \((?:no layer|layer "[^"]+")\))?\.$'
)
LINE_MISS = re.compile(
    r'^(Sub modules of )?"([^"]+)" '
    r"(does not import|do not import|is not imported by|are not imported by) "
    r"(any module that is not )?(.+)\.$"
)
OBJ_ITEM = re.compile(r'(a sub module of )?"([^"]+)"')


class Unparsable(ValueError):
    pass


def parse_rule_message(msg: str, imp: bool):
    """Anchored line grammar of module-rule messages -> (real set, miss dict)."""
    real, miss = set(), {}
    want_real = "imports" if imp else "is imported by"
    for line in msg.split("\n"):
        m = LINE_REAL.match(line)
        if m and not m.group(2) and not m.group(5):
            if m.group(3) != want_real:
                raise Unparsable("wrong verb: " + line)
            real.add((m.group(1), m.group(4)))
            continue
        m = LINE_MISS.match(line)
        if not m:
            raise Unparsable("unparsable: " + line)
        plural = m.group(3).startswith(("do ", "are "))
        if plural != bool(m.group(1)):
            raise Unparsable("number disagreement: " + line)
        if m.group(3).endswith("import") != imp:
            raise Unparsable("wrong verb: " + line)
        body = m.group(5)
        items = OBJ_ITEM.findall(body)
        if ", ".join(f'{a}"{b}"' for a, b in items) != body:
            raise Unparsable("object list: " + line)
        key = (bool(m.group(1)), m.group(2), bool(m.group(4)))
        if key in miss:
            raise Unparsable("duplicate subject line: " + line)
        miss[key] = tuple(sorted(items))
    return real, miss


# ----------------------------------------------------------------------- layer model


def layer_expectation(ns, I, layers: dict, spec: dict):
    """Layer-rule semantics.  layers: name -> list of module names (already expanded).
    spec: verb, imp, exc, subj (layer), obj (list of layers), anything(optional).
    Returns (real, miss): real = set of (subject-side module, other module); miss = set of
    (subject layer, is 'any other', tuple(object layers))."""
    verb, imp, exc = spec["verb"], spec["imp"], spec["exc"]
    sl = spec["subj"]
    L = {l: set().union(*[S("named", m, ns) for m in ms]) if ms else set() for l, ms in layers.items()}
    if spec.get("anything"):
        objs, exc = [sl], True
    else:
        objs = list(spec["obj"])
    E = I if imp else {(v, u) for u, v in I}
    Sset = L[sl]
    allO = set().union(*[L[o] for o in objs]) if objs else set()

    def edges(o):
        return {(u, v) for u, v in E if u in Sset and v in L[o] and v not in Sset}

    others = {(u, v) for u, v in E if u in Sset and v not in Sset and v not in allO}
    need_edge = verb in ("should", "should_only") and not exc
    forbid_edge = (verb == "should_not" and not exc) or (verb == "should_only" and exc)
    need_other = verb in ("should", "should_only") and exc
    forbid_other = (verb == "should_not" and exc) or (
        verb == "should_only" and not exc
    )
    real, miss = set(), set()
    if need_edge:
        m = tuple(sorted(o for o in objs if not edges(o)))
        if m:
            miss.add((sl, False, m))
    if forbid_edge:
        for o in objs:
            real |= edges(o)
    if need_other and not others:
        miss.add((sl, True, tuple(sorted(objs))))
    if forbid_other:
        real |= others
    return real, miss


def layer_of(m: str, layers: dict, ns):
    for l, ms in layers.items():
        for x in ms:
            if m == x or anc(x, m):
                return l
    return None


LAYER_MISS = re.compile(
    r'^Layer "([^"]+)" (does not import|is not imported by) (any layer that is not )?(.+)\.$'
)
LAYER_ITEM = re.compile(r'layer "([^"]+)"')


def parse_layer_message(msg: str, imp: bool):
    """-> (real: set of (x, tag_x, y, tag_y), miss: set of (layer, any, tuple(layers)))."""
    real, miss = set(), set()
    want_real = "imports" if imp else "is imported by"
    for line in msg.split("\n"):
        m = LINE_REAL.match(line)
        if m and m.group(2) and m.group(5):
            if m.group(3) != want_real:
                raise Unparsable("wrong verb: " + line)
            real.add((m.group(1), m.group(2).strip(), m.group(4), m.group(5).strip()))
            continue
        m = LAYER_MISS.match(line)
        if not m:
            raise Unparsable("unparsable: " + line)
        if m.group(2).endswith("import") != imp:
            raise Unparsable("wrong verb: " + line)
        items = LAYER_ITEM.findall(m.group(4))
        if ", ".join(f'layer "{a}"' for a in items) != m.group(4):
            raise Unparsable("object list: " + line)
        miss.add((m.group(1), bool(m.group(3)), tuple(sorted(items))))
    return real, miss


# ------------------------------------------------------------------- quotient (C09)


def truncate(name: str, k: int) -> str:
    """Truncate to k levels below the first component."""
    return ".".join(name.split(".")[: k + 1])


def quotient(ns, I, k: int):
    qn = {truncate(n, k) for n in ns}
    qi = {(truncate(u, k), truncate(v, k)) for u, v in I}
    qi = {(u, v) for u, v in qi if u != v}
    return qn, qi


# ---------------------------------------------------------------- glob model (C08)


def glob_matches(pattern: str, s: str) -> bool:
    """Literal model of the documented glob: leading * any prefix, trailing * any suffix,
    everything else literal, matched in full."""
    lead = pattern.startswith("*")
    trail = pattern.endswith("*")
    if pattern == "*":
        return True
    core = pattern[1 if lead else 0 : len(pattern) - 1 if trail else len(pattern)]
    if lead and trail:
        return core in s
    if lead:
        return s.endswith(core)
    if trail:
        return s.startswith(core)
    return s == core


# --------------------------------------------------------------------- labels (C17)


def label_model(module: str, aliases: dict) -> str:
    best = None
    for k in aliases:
        if module == k or anc(k, module):
            if best is None or len(k) > len(best):
                best = k
    if best is None:
        return module
    return aliases[best] + module[len(best) :]


def all_subsets(xs, lo=0, hi=None):
    hi = len(xs) if hi is None else hi
    for k in range(lo, hi + 1):
        yield from itertools.combinations(xs, k)
