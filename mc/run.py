"""CLI: /venv/bin/python -m mc.run <ID> [--tier quick|thorough]

Honours VERIF_SEED (presentation only: hash seed, list orders, naming scheme - never which
cases are explored) and VERIF_TIER (overrides --tier)."""

from __future__ import annotations

import argparse
import os
import sys


def main(argv=None) -> int:
    ap = argparse.ArgumentParser()
    ap.add_argument("prop")
    ap.add_argument("--tier", default="quick", choices=["quick", "thorough"])
    a = ap.parse_args(argv)
    tier = os.environ.get("VERIF_TIER") or a.tier
    if tier not in ("quick", "thorough"):
        tier = a.tier
    try:
        seed = int(os.environ.get("VERIF_SEED", "0"))
    except ValueError:
        seed = 0
    # fixed, explicit hash seed for this process and all forked workers
    want = str(seed % 4294967295)
    if os.environ.get("PYTHONHASHSEED") != want:
        os.environ["PYTHONHASHSEED"] = want
        os.execv(sys.executable, [sys.executable, "-m", "mc.run", a.prop, "--tier", tier])
    import importlib

    from . import engine

    mod = importlib.import_module(f"mc.checks.{a.prop.lower()}")
    return engine.execute(mod, tier, seed)


if __name__ == "__main__":
    sys.exit(main())
