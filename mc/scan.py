"""Engine E3 helpers: real directory trees on tmpfs, scanning through the public entry
points, and the statement-list position alphabet derived from the running interpreter."""

from __future__ import annotations

import ast
import itertools
import os
import re
import types

from .common import hierarchy_edges, import_edges

from pytestarch import (  # noqa: E402
    get_evaluable_architecture,
    get_evaluable_architecture_for_module_objects,
)


def scan(root, module_path, entry="path", **opts):
    """-> evaluable via one of the two public entry points."""
    if entry == "path":
        return get_evaluable_architecture(root, module_path, **opts)
    rm, mm = types.ModuleType("rootmod"), types.ModuleType("mod")
    rm.__file__ = os.path.join(root, "__init__.py")
    mm.__file__ = os.path.join(module_path, "__init__.py")
    return get_evaluable_architecture_for_module_objects(rm, mm, **opts)


def observed(ev):
    return set(ev.modules), import_edges(ev), hierarchy_edges(ev)


def is_ancestor(a, b):
    return b.startswith(a + ".")


# ------------------------------------------------------------------ position alphabet


def ind(s: str) -> str:
    return "\n".join("    " + line for line in s.split("\n"))


TEMPLATES = {
    "FunctionDef.body": lambda s: "def f():\n" + ind(s),
    "AsyncFunctionDef.body": lambda s: "async def f():\n" + ind(s),
    "ClassDef.body": lambda s: "class C:\n" + ind(s),
    "For.body": lambda s: "for _x in ():\n" + ind(s),
    "For.orelse": lambda s: "for _x in ():\n    pass\nelse:\n" + ind(s),
    "AsyncFor.body": lambda s: "async def g():\n    async for _x in y:\n" + ind(ind(s)),
    "AsyncFor.orelse": lambda s: "async def g():\n    async for _x in y:\n        pass\n    else:\n" + ind(ind(s)),
    "While.body": lambda s: "while False:\n" + ind(s),
    "While.orelse": lambda s: "while False:\n    pass\nelse:\n" + ind(s),
    "If.body": lambda s: "if x:\n" + ind(s),
    "If.orelse": lambda s: "if x:\n    pass\nelse:\n" + ind(s),
    "With.body": lambda s: "with x:\n" + ind(s),
    "AsyncWith.body": lambda s: "async def g():\n    async with x:\n" + ind(ind(s)),
    "Try.body": lambda s: "try:\n" + ind(s) + "\nexcept E:\n    pass",
    "Try.orelse": lambda s: "try:\n    pass\nexcept E:\n    pass\nelse:\n" + ind(s),
    "Try.finalbody": lambda s: "try:\n    pass\nfinally:\n" + ind(s),
    "ExceptHandler.body@Try": lambda s: "try:\n    pass\nexcept E:\n" + ind(s),
    "TryStar.body": lambda s: "try:\n" + ind(s) + "\nexcept* E:\n    pass",
    "TryStar.orelse": lambda s: "try:\n    pass\nexcept* E:\n    pass\nelse:\n" + ind(s),
    "TryStar.finalbody": lambda s: "try:\n    pass\nexcept* E:\n    pass\nfinally:\n" + ind(s),
    "ExceptHandler.body@TryStar": lambda s: "try:\n    pass\nexcept* E:\n" + ind(s),
    "match_case.body": lambda s: "match x:\n    case 1:\n" + ind(ind(s)),
}
NOT_REACHABLE = {"Module.body": "the file itself (chain of length 0)",
                 "Interactive.body": "only produced by ast.parse(mode='single'), never by a scanned file"}


def introspect_slots():
    """All (class.field) statement-list slots of the running interpreter's ast grammar."""
    slots = []
    for name in sorted(dir(ast)):
        cls = getattr(ast, name)
        if not (isinstance(cls, type) and issubclass(cls, ast.AST)):
            continue
        doc = cls.__doc__ or ""
        if not doc.startswith(name + "("):
            continue
        for typ, field in re.findall(r"([A-Za-z_]+[*?]?) (\w+)", doc[len(name) + 1 :]):
            if typ == "stmt*":
                slots.append(f"{name}.{field}")
    return slots


def check_alphabet():
    """Fail loudly if the grammar has a statement-list slot without a template."""
    have = {k.split("@")[0] for k in TEMPLATES} | set(NOT_REACHABLE)
    missing = [s for s in introspect_slots() if s not in have]
    if missing:
        raise RuntimeError(f"harness fault: ast statement-list slots without template: {missing}")
    return sorted(TEMPLATES)


def chains(max_depth: int):
    keys = sorted(TEMPLATES)
    out = [()]
    for d in range(1, max_depth + 1):
        out += list(itertools.product(keys, repeat=d))
    return out


def place(stmt: str, chain) -> str:
    """Nest stmt inside the chain of slots (outermost first); filler statements around it."""
    s = stmt
    for key in reversed(chain):
        s = TEMPLATES[key](s)
    return "y = 0\n" + s + "\nz = 1\n"


def innermost_slot(source: str):
    """(class.field) of the statement list that directly contains the import statement."""
    tree = ast.parse(source)
    found = []

    def walk(node):
        for field, value in ast.iter_fields(node):
            if isinstance(value, list):
                for item in value:
                    if isinstance(item, (ast.Import, ast.ImportFrom)):
                        found.append(f"{type(node).__name__}.{field}")
                    elif isinstance(item, ast.AST):
                        walk(item)
            elif isinstance(value, ast.AST):
                walk(value)

    walk(tree)
    return found
