"""Reference model of a scan (DESIGN §3 'scan model'): which modules and import edges the
documentation promises for a directory tree, written without looking at how pytestarch walks
the tree.  A tree is {relative file path: [import facts]} plus a set of directories."""

from __future__ import annotations

import os


def stmt(fact) -> str:
    kind = fact[0]
    if kind == "import":
        return "import " + fact[1]
    if kind == "from":
        return f"from {fact[1]} import {', '.join(fact[2])}"
    if kind == "rel":
        return f"from {'.' * fact[1]}{fact[2]} import {', '.join(fact[3])}"
    raise ValueError(fact)


def source(facts) -> str:
    return "".join(stmt(f) + "\n" for f in facts)


def dotted(rel: str) -> str:
    if rel.endswith(".py"):
        rel = rel[:-3]
    return rel.replace("/", ".")


def ancestors(name: str):
    parts = name.split(".")
    return [".".join(parts[:i]) for i in range(1, len(parts))]


def all_dirs(files, dirs=()):
    out = set(dirs)
    for rel in files:
        d = os.path.dirname(rel)
        while d:
            out.add(d)
            d = os.path.dirname(d)
    return out


def model_modules(files, dirs, root_rel, mp_rel, base="", excluded=None):
    """Modules the scan must contain.  root_rel / mp_rel are relative directory paths
    (root_rel's last component is the root name); names start at the root's own name.
    excluded(abs_path) -> bool decides exclusion of a file or directory path."""
    excluded = excluded or (lambda p: False)
    root_parent = os.path.dirname(root_rel)

    def name(rel):
        r = os.path.relpath(rel, root_parent) if root_parent else rel
        return dotted(r)

    def cut(rel):  # excluded itself or below an excluded directory (from module_path downwards)
        cur = rel
        chain = [cur]
        while cur != mp_rel and os.path.dirname(cur):
            cur = os.path.dirname(cur)
            chain.append(cur)
        return any(excluded(os.path.join(base, c)) for c in chain)

    mods = set()
    for d in all_dirs(files, dirs):
        if (d == mp_rel or d.startswith(mp_rel + "/")) and not cut(d):
            mods.add(name(d))
    file_mods = {}
    for rel in files:
        if rel.endswith(".py") and rel.startswith(mp_rel + "/") and not cut(rel):
            mods.add(name(rel))
            file_mods[rel] = name(rel)
    # ancestors of module_path up to the root
    mods.update(a for a in ancestors(name(mp_rel)))
    return mods, file_mods


def resolve(fact, importer: str, internal: set, root_rel: str, mp_rel: str):
    """-> list of (must target, may targets) dotted names a statement refers to."""
    root_parent = os.path.dirname(root_rel)
    root_name = os.path.basename(root_rel)
    mp_name = dotted(os.path.relpath(mp_rel, root_parent) if root_parent else mp_rel)
    prefix = mp_name.rsplit(".", 1)[0] if mp_name != root_name else ""

    def adjust(x):
        if prefix and f"{prefix}.{x}" in internal:
            return f"{prefix}.{x}"
        return x

    out = []
    kind = fact[0]
    if kind == "import":
        out.append((adjust(fact[1]), set()))
    elif kind == "from":
        base = adjust(fact[1])
        for n in fact[2]:
            if n != "*" and f"{base}.{n}" in internal:
                out.append((f"{base}.{n}", {base}))
            else:
                out.append((base, set()))
    else:
        _, level, p, names = fact
        anc = ancestors(importer)
        anchor = anc[-level]
        base = anchor + ("." + p if p else "")
        for n in names:
            if n != "*" and f"{base}.{n}" in internal:
                out.append((f"{base}.{n}", {base} if p else set()))
            else:
                out.append((base, set()))
    return out


def is_internal_name(x: str, root_rel: str, mp_rel: str) -> bool:
    """Internal = module_path's own dotted name or below it, on dotted-name boundaries."""
    root_parent = os.path.dirname(root_rel)
    mp_name = dotted(os.path.relpath(mp_rel, root_parent) if root_parent else mp_rel)
    return x == mp_name or x.startswith(mp_name + ".")


def model_scan(files, dirs, root_rel, mp_rel, base="", excluded=None):
    """-> dict(modules, must, may, external=[(importer, target)])  (externals unfiltered)."""
    mods, file_mods = model_modules(files, dirs, root_rel, mp_rel, base, excluded)
    must, may, ext = set(), set(), []
    for rel, importer in file_mods.items():
        for fact in files[rel]:
            for target, extra in resolve(fact, importer, mods, root_rel, mp_rel):
                if target in mods:
                    if target != importer:
                        must.add((importer, target))
                    for e in extra:
                        if e in mods and e != importer:
                            may.add((importer, e))
                elif not is_internal_name(target, root_rel, mp_rel):
                    ext.append((importer, target))
    return {"modules": mods, "must": must, "may": must | may, "external": ext, "file_modules": file_mods}


def drop_ancestor_edges(edges):
    return {(u, v) for (u, v) in edges if not u.startswith(v + ".")}
