"""Enumerators for the bounded spaces of DESIGN §2: rooted trees/forests, import relations,
rule shapes.  Everything here is a pure function of its arguments (no randomness)."""

from __future__ import annotations

import functools
import itertools

# ----------------------------------------------------------------------------- trees


@functools.lru_cache(maxsize=None)
def trees(n: int) -> tuple:
    """All unlabeled rooted trees with exactly n nodes, as canonical nested tuples."""
    if n == 1:
        return ((),)
    res = set()

    def parts(k, mx):
        if k == 0:
            yield []
            return
        for p in range(min(k, mx), 0, -1):
            for rest in parts(k - p, p):
                yield [p] + rest

    for ps in parts(n - 1, n - 1):
        for combo in itertools.product(*[trees(p) for p in ps]):
            res.add(tuple(sorted(combo, reverse=True)))
    return tuple(sorted(res))


def trees_upto(n: int, start: int = 2) -> list:
    return [t for k in range(start, n + 1) for t in trees(k)]


DEFAULT_NAMES = "abcdefgh"


def nodes(t, name: str = "r", names=DEFAULT_NAMES) -> list[str]:
    """Dotted names of a tree's nodes in pre-order; children are named names[i]."""
    out = [name]
    for i, c in enumerate(t):
        out += nodes(c, f"{name}.{names[i]}", names)
    return out


def anc(a: str, b: str) -> bool:
    """a is a strict ancestor of b (whole dotted components)."""
    return b.startswith(a + ".")


def related(a: str, b: str) -> bool:
    return a == b or anc(a, b) or anc(b, a)


def desc(x: str, ns) -> set[str]:
    return {n for n in ns if n == x or anc(x, n)}


def sdesc(x: str, ns) -> set[str]:
    return {n for n in ns if anc(x, n)}


def leaves(ns) -> list[str]:
    return [x for x in ns if not any(anc(x, y) for y in ns)]


def depth_of(ns) -> int:
    return max(n.count(".") for n in ns)


def unrelated(xs) -> bool:
    return all(not related(a, b) for a, b in itertools.combinations(xs, 2))


# ------------------------------------------------------------------- import relations


def admissible_pairs(ns, root_importee: bool = False, externals=()) -> list[tuple]:
    """Ordered pairs (importer, importee) of a realizable architecture: the importer is a
    leaf of the scanned tree (a .py file), the importee any other module.  External modules
    (second forest) never import."""
    internal = [n for n in ns if n not in externals]
    root = internal[0]
    lv = [x for x in leaves(internal)]
    pairs = []
    for u in lv:
        for v in ns:
            if v == u:
                continue
            if v == root and not root_importee:
                continue
            pairs.append((u, v))
    return pairs


def relations_complete(pairs):
    """Every subset of pairs, as (bits, frozenset)."""
    n = len(pairs)
    for bits in range(1 << n):
        yield bits, [pairs[i] for i in range(n) if bits >> i & 1]


def relations_bounded(pairs, k: int):
    """Every subset with at most k edges, smallest first (iterative edge bound)."""
    for size in range(0, k + 1):
        for sub in itertools.combinations(pairs, size):
            yield list(sub)


# ------------------------------------------------------------------------ rule space

VERBS = ("should", "should_only", "should_not")
SHAPES = [
    (verb, imp, exc) for verb in VERBS for imp in (True, False) for exc in (False, True)
]
KINDS = ("named", "sub")


def subject_object_choices(ns, max_s=3, max_o=3, antichain=True, exclude=()):
    """All (subjects, objects) with disjoint non-empty tuples; antichain=True keeps only
    pairwise unrelated identifier sets (the strict-oracle domain)."""
    cand = [x for x in ns if x not in exclude]
    out = []
    for k in range(2, max_s + max_o + 1):
        for xs in itertools.combinations(cand, k):
            if antichain and not unrelated(xs):
                continue
            for s in range(1, min(max_s, k - 1) + 1):
                if not 1 <= k - s <= max_o:
                    continue
                for subj in itertools.combinations(xs, s):
                    out.append((subj, tuple(x for x in xs if x not in subj)))
    return out


def subject_choices(ns, max_s=3, antichain=True, exclude=()):
    cand = [x for x in ns if x not in exclude]
    out = []
    for k in range(1, max_s + 1):
        for xs in itertools.combinations(cand, k):
            if antichain and not unrelated(xs):
                continue
            out.append(xs)
    return out


# --------------------------------------------------------------------------- renaming


def renamed_graph(ns, I, naming: str):
    """(ns, I) with every dotted component mapped through the named injective renaming."""
    m = NAMING_SELFPREFIX if naming == "selfprefix" else NAMINGS[naming]
    if not m:
        return list(ns), list(I)
    return [rename(n, m) for n in ns], [(rename(a, m), rename(b, m)) for a, b in I]



def rename(name: str, mapping: dict) -> str:
    """Rename dotted components position-independently through an injective map."""
    return ".".join(mapping.get(c, c) for c in name.split("."))


NAMING_PLAIN = {
    "r": "root",
    "a": "alpha",
    "b": "beta",
    "c": "gamma",
    "d": "delta",
    "e": "eps",
    "p": "pi",
    "q": "rho",
}
# siblings / cousins become string prefixes and substrings of each other
NAMING_ADVERSARIAL = {
    "r": "r",
    "a": "a",
    "b": "ab",
    "c": "a_b",
    "d": "aa",
    "e": "ra",
    "p": "aab",
    "q": "b",
}
NAMING_UNICODE = {
    "r": "r",
    "a": "ä",
    "b": "äb",
    "c": "ä_b",
    "d": "ää",
    "e": "é",
    "p": "ääb",
    "q": "b",
}
# children repeat the name of their parent / of the root: r.r, r.ra, r.r.r ... (a child's own name
# starts with the text of the package that contains it).  Not injective on components (r and a
# both become r), hence not part of NAMINGS, which the renaming-invariance check C14 iterates over;
# full dotted names stay distinct, which is all the model-based checks need.
NAMING_SELFPREFIX = {
    "r": "r",
    "a": "r",
    "b": "ra",
    "c": "r_a",
    "d": "rr",
    "e": "re",
    "p": "rp",
    "q": "a",
}
# siblings whose names differ from a package name only by a character that sorts before "." (a
# directory db-old next to the package db): in the sorted list of names they stand between the
# package and its own sub modules
NAMING_HYPHEN = {"r": "r", "a": "a", "b": "a-b", "c": "a+b", "d": "a b", "e": "a!", "p": "p", "q": "q"}
# component names of very different lengths: a module on a shallow level has a longer dotted name than modules
# two levels further down (r.cccccccccccc vs r.a.a.a)
NAMING_LENGTHS = {"r": "r", "a": "a", "b": "bbbbbbbb", "c": "cccccccccccc", "d": "dd", "e": "eeeeee", "p": "p", "q": "qqqq"}
# siblings whose names differ in letter case only (on a case-sensitive file system these are different modules)
NAMING_CASEONLY = {"r": "r", "a": "shapes", "b": "Shapes", "c": "SHAPES", "d": "shapeS", "e": "sHapes", "p": "p", "q": "P"}
# a leaf called __init__ (what the scanner makes of a package's own file) and other dunder names
NAMING_DUNDER = {"r": "r", "a": "a", "b": "__init__", "c": "__main__", "d": "_", "e": "__", "p": "__init__x", "q": "x__init__"}
NAMINGS = {
    "identity": {},
    "hyphen": NAMING_HYPHEN,
    "plain": NAMING_PLAIN,
    "adversarial": NAMING_ADVERSARIAL,
    "unicode": NAMING_UNICODE,
    "lengths": NAMING_LENGTHS,
    "caseonly": NAMING_CASEONLY,
    "dunder": NAMING_DUNDER,
}
