import sys
from pytestarch import Rule, LayerRule, LayeredArchitecture
from pytestarch.eval_structure.evaluable_graph import EvaluableArchitectureGraph
from pytestarch.eval_structure.networkxgraph import NetworkxGraph
from pytestarch.eval_structure_generation.file_import.import_types import AbsoluteImport

def arch(mods, imps, level_limit=None):
    return EvaluableArchitectureGraph(NetworkxGraph(list(mods), [AbsoluteImport(a,b) for a,b in imps], level_limit))

def run(rule, ev):
    try:
        rule.assert_applies(ev)
        return ('PASS', '')
    except AssertionError as e:
        return ('FAIL', str(e))
    except Exception as e:
        return ('ERR', type(e).__name__ + ': ' + str(e))
