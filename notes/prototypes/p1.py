from h import *
# transitive predecessor bug: C imports D, D imports A; rule: A should only be imported by B
ev = arch(['r.A','r.B','r.C','r.D'], [('r.C','r.D'),('r.D','r.A'),('r.B','r.A')])
print(run(Rule().modules_that().are_named('r.A').should_only().be_imported_by_modules_that().are_named('r.B'), ev))
print(run(Rule().modules_that().are_named('r.A').should_not().be_imported_by_modules_except_modules_that().are_named('r.B'), ev))
print(run(Rule().modules_that().are_named('r.A').should_not().be_imported_by_anything(), ev))
# should().import_anything()
print(run(Rule().modules_that().are_named('r.A').should().import_anything(), ev))
print(run(Rule().modules_that().are_named('r.A').should_only().import_anything(), ev))
# anything with prefix sibling
ev2 = arch(['r.a','r.ab','r.c'], [('r.ab','r.c')])
print(run(Rule().modules_that().are_named(['r.a','r.ab']).should_not().import_anything(), ev2))
print(run(Rule().modules_that().are_named(['r.ab']).should_not().import_anything(), ev2))
