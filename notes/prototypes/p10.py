import os, shutil
from p3h import *
tree = {
 'top/proj/sub/x.py': 'import top.proj.subx.m\nimport top.proj.sub.y\nimport top.proj.other\n',
 'top/proj/sub/y.py': '',
 'top/proj/subx/m.py': '',
 'top/proj/other.py': '',
 'top/pro/z.py': 'import top.proj.other\n',
 'topx/q.py': '',
}
base = mk(tree)
R = os.path.join(base,'top')
M = os.path.join(R,'proj','sub')
print('--- default'); show(get_evaluable_architecture(R, M))
print('--- ext incl'); show(get_evaluable_architecture(R, M, exclude_external_libraries=False))
print('--- ext incl, excl top*'); show(get_evaluable_architecture(R, M, exclude_external_libraries=False, external_exclusions=('top*',)))
print('--- ext incl, excl *m'); show(get_evaluable_architecture(R, M, exclude_external_libraries=False, external_exclusions=('*m',)))
print('--- ext incl, excl *other'); show(get_evaluable_architecture(R, M, exclude_external_libraries=False, external_exclusions=('*other',)))
print('--- module=top/pro'); show(get_evaluable_architecture(R, os.path.join(R,'pro'), exclude_external_libraries=True))
shutil.rmtree(base)
