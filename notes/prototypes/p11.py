from h import *
mods = ['r','r.a','r.a.x','r.a.y','r.b','r.c']
def R(): return Rule().modules_that()
print('== ambiguity: sub modules of r.a, child imports parent')
ev = arch(mods, [('r.a.x','r.a')])
print('fwd  subs(r.a) should_not import except r.b :', run(R().are_sub_modules_of('r.a').should_not().import_modules_except_modules_that().are_named('r.b'), ev))
print('fwd  named r.a.x should_not import except r.b :', run(R().are_named('r.a.x').should_not().import_modules_except_modules_that().are_named('r.b'), ev))
ev = arch(mods, [('r.a','r.a.x')])
print('bwd  subs(r.a) should_not be imported except by r.b :', run(R().are_sub_modules_of('r.a').should_not().be_imported_by_modules_except_modules_that().are_named('r.b'), ev))
print('bwd  named r.a.x should_not be imported except by r.b :', run(R().are_named('r.a.x').should_not().be_imported_by_modules_except_modules_that().are_named('r.b'), ev))
print('== object sub modules of r.b, import of r.b itself')
ev = arch(mods+['r.b.z'], [('r.a','r.b')])
print('r.a should_only import subs(r.b):', run(R().are_named('r.a').should_only().import_modules_that().are_sub_modules_of('r.b'), ev))
print('r.a should_not import except subs(r.b):', run(R().are_named('r.a').should_not().import_modules_except_modules_that().are_sub_modules_of('r.b'), ev))
ev = arch(mods+['r.b.z'], [('r.b','r.a')])
print('r.a should_not be imported except by subs(r.b):', run(R().are_named('r.a').should_not().be_imported_by_modules_except_modules_that().are_sub_modules_of('r.b'), ev))
print('== unknown names')
ev = arch(mods, [('r.a','r.b')])
for verb in ['should','should_only','should_not']:
  for imp in ['import_modules_that','import_modules_except_modules_that','be_imported_by_modules_that','be_imported_by_modules_except_modules_that']:
    for pos in ['subj','obj']:
      for kind in ['are_named','are_sub_modules_of']:
        r = getattr(R(), kind)('r.nope' if pos=='subj' else 'r.a')
        r = getattr(getattr(r, verb)(), imp)()
        r = getattr(r, kind)('r.nope' if pos=='obj' else 'r.b')
        res = run(r, ev)
        if res[0] != 'ERR': print('  NOT ERR:', verb, imp, pos, kind, res)
print('anything unknown', run(R().are_named('r.nope').should_not().import_anything(), ev), run(R().are_named('r.nope').should_not().be_imported_by_anything(), ev))
