import ast, re, sys
print(sys.version)
cont = {}
for name in dir(ast):
    cls = getattr(ast, name)
    if isinstance(cls, type) and issubclass(cls, ast.AST) and cls.__doc__ and '(' in cls.__doc__:
        doc = cls.__doc__
        for m in re.finditer(r'(\w+)([*?]?) (\w+)', doc[doc.index('(')+1:]):
            typ, q, field = m.groups()
            if q == '*' and typ in ('stmt','excepthandler','match_case'):
                cont.setdefault(name, []).append((typ, field))
for k,v in sorted(cont.items()): print(k, v)
print(getattr(ast.If, '_field_types', None))
