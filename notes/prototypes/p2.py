from h import *
mods = ['r','r.a','r.b','r.c','r.d','r.ab','r.a.x']
# mixed regex / named layers
la = lambda: LayeredArchitecture().layer('L1').containing_modules(['r.a']).layer('L2').have_modules_with_names_matching(r'^r\.b$').layer('L3').containing_modules(['r.c'])
ev = arch(mods, [('r.a','r.b')])
print('mixed obj [L2 regex, L3 named]', run(LayerRule().based_on(la()).layers_that().are_named('L1').should_not().access_layers_that().are_named(['L2','L3']), ev))
print('mixed obj [L3 named, L2 regex]', run(LayerRule().based_on(la()).layers_that().are_named('L1').should_not().access_layers_that().are_named(['L3','L2']), ev))
print('regex layer unmentioned', run(LayerRule().based_on(la()).layers_that().are_named('L1').should_not().access_layers_that().are_named(['L3']), ev))
print('regex layer unmentioned should', run(LayerRule().based_on(la()).layers_that().are_named('L1').should().access_layers_that().are_named(['L3']), ev))
# intra-layer import as only "other"
la2 = lambda: LayeredArchitecture().layer('L1').containing_modules(['r.a','r.b']).layer('L2').containing_modules(['r.c'])
ev2 = arch(mods, [('r.a','r.b')])
print('intra-layer only other: should access except L2 ->', run(LayerRule().based_on(la2()).layers_that().are_named('L1').should().access_layers_except_layers_that().are_named('L2'), ev2))
print('intra-layer: should not access any layer ->', run(LayerRule().based_on(la2()).layers_that().are_named('L1').should_not().access_any_layer(), ev2))
print('intra-layer: should not access except L2 ->', run(LayerRule().based_on(la2()).layers_that().are_named('L1').should_not().access_layers_except_layers_that().are_named('L2'), ev2))
# prefix sibling layer attribution
la3 = lambda: LayeredArchitecture().layer('L1').containing_modules(['r.a']).layer('L2').containing_modules(['r.c'])
ev3 = arch(mods, [('r.a','r.ab')])
print('prefix sibling: L1 should not access except L2 ->', run(LayerRule().based_on(la3()).layers_that().are_named('L1').should_not().access_layers_except_layers_that().are_named('L2'), ev3))
ev4 = arch(mods, [('r.a','r.d')])
print('control r.a->r.d: ', run(LayerRule().based_on(la3()).layers_that().are_named('L1').should_not().access_layers_except_layers_that().are_named('L2'), ev4))
# string dup
try:
    a = LayeredArchitecture().layer('L1').containing_modules('mod_one').layer('L2').containing_modules('mod_one')
    print('string dup accepted:', a)
except Exception as e: print('string dup rejected', type(e).__name__, e)
try:
    a = LayeredArchitecture().layer('L1').containing_modules(['mod_one']).layer('L2').containing_modules('mod_one')
    print('list/string dup accepted:', a)
except Exception as e: print('list/string dup rejected', type(e).__name__, e)
try:
    a = LayeredArchitecture().layer('L1').containing_modules(['mod_one']).layer('L2').containing_modules(['mod_one'])
    print('list dup accepted:', a)
except Exception as e: print('list dup rejected', type(e).__name__, e)
try:
    a = LayeredArchitecture().layer('L1').containing_modules('mod_one').layer('L2').containing_modules('one')
    print('string vs chars accepted:', a)
except Exception as e: print('non-dup string rejected (false reject?)', type(e).__name__, e)
try:
    a = LayeredArchitecture().layer('L1').containing_modules(['o']).layer('L2').containing_modules('one')
    print('accepted:', a)
except Exception as e: print('non-dup string rejected (false reject!)', type(e).__name__, e)
# two subject layers
try:
    r = LayerRule().based_on(la3()).layers_that().are_named('L1').are_named('L2')
    print('two subject layers accepted', r._rule._configuration.modules_to_check)
except Exception as e: print('two subjects rejected', type(e).__name__, e)
