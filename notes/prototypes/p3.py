import os, shutil, tempfile, textwrap
from pytestarch import get_evaluable_architecture
def mk(tree, base=None):
    base = base or tempfile.mkdtemp(prefix='pta_')
    for p, c in tree.items():
        fp = os.path.join(base, p)
        os.makedirs(os.path.dirname(fp), exist_ok=True)
        with open(fp,'w') as f: f.write(textwrap.dedent(c))
    return base
def edges(ev):
    g = ev._graph._graph
    return sorted((u,v) for u,v,d in g.edges(data=True) if not d['inherits'])
def show(ev):
    print(' modules', sorted(ev.modules)); print(' imports', edges(ev))

tree = {
 'proj/__init__.py': '',
 'proj/a.py': '''
    import os
    if x:
        pass
    else:
        import proj.t_else
    try:
        import proj.t_try
    except E:
        import proj.t_except
    else:
        import proj.t_tryelse
    finally:
        import proj.t_finally
    for i in y:
        import proj.t_for
    else:
        import proj.t_forelse
    while z:
        import proj.t_while
    else:
        import proj.t_whileelse
    with w:
        import proj.t_with
    match m:
        case 1:
            import proj.t_match
    def f():
        import proj.t_func
        class C:
            import proj.t_class
            if q:
                import proj.t_deepif
            elif r:
                import proj.t_elif
 ''',
 'proj/b.py': '''
    from proj import sub
    from proj.pkg import mod
    from proj.pkg import mod as mm, other
    from . import rel1
    from .pkg import mod2
    from .pkg.mod3 import name
    from proj.pkg.mod4 import *
 ''',
 'proj/pkg/__init__.py': 'from . import initrel\nfrom .. import sub as s2\n',
 'proj/pkg/deep.py': 'from .. import rel_up\nfrom ..pkg import mod\nfrom . import sib\n',
}
for n in ['t_else','t_try','t_except','t_tryelse','t_finally','t_for','t_forelse','t_while','t_whileelse','t_with','t_match','t_func','t_class','t_deepif','t_elif','sub','rel1','rel_up']:
    tree[f'proj/{n}.py'] = ''
for n in ['mod','other','mod2','mod3','mod4','initrel','sib']:
    tree[f'proj/pkg/{n}.py'] = ''
base = mk(tree)
ev = get_evaluable_architecture(os.path.join(base,'proj'), os.path.join(base,'proj'))
e = edges(ev)
for x in e: print(x)
shutil.rmtree(base)
