import os, shutil, tempfile, textwrap
from pytestarch import get_evaluable_architecture
def mk(tree, base=None):
    base = base or tempfile.mkdtemp(prefix='pta_')
    for p, c in tree.items():
        fp = os.path.join(base, p)
        os.makedirs(os.path.dirname(fp), exist_ok=True)
        with open(fp,'w') as f: f.write(textwrap.dedent(c))
    return base
def edges(ev):
    g = ev._graph._graph
    return sorted((u,v) for u,v,d in g.edges(data=True) if not d['inherits'])
def show(ev):
    print(' modules', sorted(ev.modules)); print(' imports', edges(ev))

