import os, shutil
from p3h import *
tree = {
 'top/proj/__init__.py': '',
 'top/proj/a.py': 'import proj.sub.x\nimport top.proj.sub.y\nimport sub.z\nfrom proj.sub import w\n',
 'top/proj/sub/__init__.py': '',
 'top/proj/sub/x.py': 'import proj.a\nfrom . import y\nfrom .. import a\nimport top.proj.ab\n',
 'top/proj/sub/y.py': '',
 'top/proj/sub/z.py': '',
 'top/proj/sub/w.py': '',
 'top/proj/sub/deep/q.py': 'import top.proj.a\nfrom ... import ab\n',
 'top/proj/ab.py': 'import top.proj.a\n',
 'top/proj/nopkg/m.py': 'import top.proj.a\n',
 'top/other.py': 'import top.proj.a\n',
}
base = mk(tree)
R = os.path.join(base,'top')
print('--- root=top module=top'); show(get_evaluable_architecture(R, R))
print('--- root=top module=top/proj'); show(get_evaluable_architecture(R, os.path.join(R,'proj')))
print('--- root=top module=top/proj/sub'); show(get_evaluable_architecture(R, os.path.join(R,'proj','sub')))
print('--- level_limit 1 root=top module=top'); show(get_evaluable_architecture(R, R, level_limit=1))
print('--- level_limit 2 root=top module=top'); show(get_evaluable_architecture(R, R, level_limit=2))
print('--- level_limit 1 root=top module=top/proj'); show(get_evaluable_architecture(R, os.path.join(R,'proj'), level_limit=1))
shutil.rmtree(base)
