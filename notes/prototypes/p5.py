import os, shutil
from p3h import *
tree = {
 'proj/__init__.py': '',
 'proj/a.py': 'import proj.handlers\nimport logging.handlers\nimport os\nimport xml.dom.minidom\nimport projx.y\nimport handlers\n',
 'proj/handlers.py': 'import proj.a\nimport logging\n',
 'proj/logging.py': '',
 'proj/sub/os.py': 'import os.path\n',
}
base = mk(tree)
R = os.path.join(base,'proj')
print('--- default'); show(get_evaluable_architecture(R, R))
print('--- include ext'); show(get_evaluable_architecture(R, R, exclude_external_libraries=False))
print('--- include ext, excl *handlers'); show(get_evaluable_architecture(R, R, exclude_external_libraries=False, external_exclusions=('*handlers',)))
print('--- include ext, excl logging'); show(get_evaluable_architecture(R, R, exclude_external_libraries=False, external_exclusions=('logging',)))
print('--- include ext, excl xml'); show(get_evaluable_architecture(R, R, exclude_external_libraries=False, external_exclusions=('xml',)))
print('--- include ext, regex excl os'); show(get_evaluable_architecture(R, R, exclude_external_libraries=False, regex_external_exclusions=('os',)))
print('--- include ext, regex excl .*os$'); show(get_evaluable_architecture(R, R, exclude_external_libraries=False, regex_external_exclusions=('.*os$',)))
shutil.rmtree(base)
