import os, shutil
from p3h import *
tree = {
 'proj/__init__.py': '',
 'proj/a.py': 'import proj.b\nimport proj.t.x\nimport proj.a_test\n',
 'proj/b.py': 'import proj.a\n',
 'proj/a_test.py': 'import proj.a\n',
 'proj/a+b.py': 'import proj.a\n',
 'proj/aab.py': 'import proj.a\n',
 'proj/t/x.py': 'import proj.b\n',
 'proj/t/deep/y.py': 'import proj.b\n',
 'proj/tt/x.py': 'import proj.b\n',
}
base = mk(tree)
R = os.path.join(base,'proj')
def go(label, **kw):
    print('---', label, kw); show(get_evaluable_architecture(R, R, **kw))
go('none', exclusions=('nomatch',))
go('*_test.py', exclusions=('*_test.py',))
go('*t', exclusions=('*t',))
go('*/t', exclusions=('*/t',))
go('*/t*', exclusions=('*/t*',))
go('*a+b.py', exclusions=('*a+b.py',))
go('full path', exclusions=(os.path.join(R,'b.py'),))
go('full path dir star', exclusions=(os.path.join(R,'t')+'*',))
go('regex', exclusions=(), regex_exclusions=('.*/t$',))
go('regex unanch', exclusions=(), regex_exclusions=('/t',))
try: go('both', exclusions=('*x',), regex_exclusions=('.*/t$',))
except Exception as e: print(type(e).__name__, e)
shutil.rmtree(base)
