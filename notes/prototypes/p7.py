import tempfile, os
from pathlib import Path
from pytestarch.diagram_extension.diagram_parser import PumlParser
def parse(txt):
    p = Path(tempfile.mktemp(suffix='.puml')); p.write_text(txt)
    try:
        r = PumlParser().parse(p)
        return sorted(r.all_modules), {k: sorted(v) for k,v in sorted(r.dependencies.items())}
    except Exception as e:
        return type(e).__name__, str(e)
    finally: os.unlink(p)
print(1, parse('@startuml\n[src.A] --> [src.B]\n@enduml'))
print(2, parse('@startuml\n[src.A]\n[src.B]\n[src.A] --> [src.B]\n@enduml'))
print(3, parse('@startuml\ncomponent src.A\n@enduml'))
print(4, parse('@startuml\n[A] as X\nX --> [B]\n[A] --> [C]\n@enduml'))
print(5, parse('@startuml\nX --> [B]\n[A] as X\n@enduml'))
print(6, parse('@startuml\ncomponent [A] as X\nB <-up- X\n@enduml'))
print(7, parse('noise [Q] --> [Z]\n@startuml\n[A] -> [B]\n@enduml\n[P] --> [R]'))
print(8, parse('@startuml\n[A] -> [B]\n@enduml\n@startuml\n[C] -> [D]\n@enduml'))
print(9, parse('@startuml\n[A] -> [B]\n[A] -> [C]\nB <- C\n@enduml'))
print(10, parse('@startuml\n  [A] -> [B]\n@enduml'))
print(11, parse('@startuml\n[A] -> [B]  \n@enduml'))
print(12, parse('@startuml\ncomponent A as X\nX -> [B]\n@enduml'))
print(13, parse('@startuml\n[A] --> [B] : uses\n@enduml'))
print(14, parse('@startuml\nA --> B\nA <-- B\n@enduml'))
print(15, parse('@startuml @enduml'))
print(16, parse('@startuml\n@enduml'))
print(17, parse('@startuml\n[A] -u-> [B]\n[C] <-d- [D]\n[E] -up-> [F]\n@enduml'))
print(18, parse('@startuml\n[A] <- [B]\n[C] <-- [D]\n@enduml'))
print(19, parse('@startuml\ncomponent [A B] as AB\nAB -> [C]\n@enduml'))
