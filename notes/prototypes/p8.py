from h import *
import networkx, pytestarch.eval_structure.networkxgraph as ng
cap = {}
def fake(g, **kw): cap.clear(); cap.update(kw)
ng.draw_networkx = fake
ev = arch(['r','r.a','r.ab','r.a.x','r.a.xy','r.b'], [])
def lab(aliases, **kw):
    try:
        ev.visualize(aliases=aliases, **kw); return dict(sorted(cap['labels'].items())), {k:v for k,v in cap.items() if k!='labels'}
    except Exception as e: return type(e).__name__, str(e)
print(lab({'r.a':'A'}))
print(lab({'r.a':'A','r.a.x':'X'}))
print(lab({'r':'R.', 'r.b':'b+'}))
print(lab({'r.zz':'Z'}))
print(lab({}, node_size=5, spacing=2.0).__repr__()[:300])
