from h import *
import hashlib
mods = ['r','r.a','r.b','r.c','r.d','r.a.x','r.b.y','r.e','r.f']
ev = arch(mods, [('r.a.x','r.b.y'),('r.c','r.a'),('r.a','r.d'),('r.e','r.a.x'),('r.f','r.e')])
out=[]
out.append(run(Rule().modules_that().have_name_matching(r'r\.[abc]$').should_only().import_modules_that().have_name_matching(r'r\.[de]$'), ev))
out.append(run(Rule().modules_that().are_named(['r.a','r.c','r.e']).should().import_modules_that().are_named(['r.d','r.f','r.b']), ev))
out.append(run(Rule().modules_that().are_named(['r.a','r.c']).should_only().be_imported_by_modules_that().are_named(['r.d','r.f']), ev))
out.append(run(Rule().modules_that().have_name_matching('zzz').should().import_modules_that().have_name_matching('yyy|qqq'), ev))
la = LayeredArchitecture().layer('L1').containing_modules(['r.a','r.c']).layer('L2').containing_modules(['r.b','r.d']).layer('L3').containing_modules(['r.e'])
out.append(run(LayerRule().based_on(la).layers_that().are_named('L1').should_only().access_layers_that().are_named(['L3']), ev))
out.append(run(LayerRule().based_on(la).layers_that().are_named('L1').should().be_accessed_by_layers_that().are_named(['L2','L3']), ev))
s = repr(out)
print(hashlib.md5(s.encode()).hexdigest())
import sys
if len(sys.argv)>1: print(s)
