import itertools, sys, collections
from h import *
from sz import trees, nodes, anc
VERBS=['should','should_only','should_not']
def S(kind, x, ns):
    d=[n for n in ns if n==x or anc(x,n)]
    return set(d) if kind=='named' else set(d)-{x}
def model(ns, I, verb, imp, exc, sk, subj, ok, obj, parent_inside):
    Ssets={s:S(sk,s,ns) for s in subj}; Osets={o:S(ok,o,ns) for o in obj}
    E = I if imp else {(v,u) for u,v in I}   # orient so that first = subject side
    def edge(s,o): return any(u in Ssets[s] and v in Osets[o] for u,v in E)
    allO=set().union(*Osets.values())
    def other(s):
        for u,v in E:
            if u in Ssets[s] and v not in Ssets[s] and v not in allO:
                if sk=='sub' and v==s and parent_inside: continue
                return True
        return False
    if not exc:
        if verb=='should': return all(edge(s,o) for s in subj for o in obj)
        if verb=='should_not': return not any(edge(s,o) for s in subj for o in obj)
        return all(edge(s,o) for s in subj for o in obj) and not any(other(s) for s in subj)
    else:
        if verb=='should': return all(other(s) for s in subj)
        if verb=='should_not': return not any(other(s) for s in subj)
        return all(other(s) for s in subj) and not any(edge(s,o) for s in subj for o in obj)
def mkrule(verb, imp, exc, sk, subj, ok, obj):
    r=Rule().modules_that()
    r=(r.are_named if sk=='named' else r.are_sub_modules_of)(list(subj))
    r=getattr(r,verb)()
    m={(True,False):'import_modules_that',(True,True):'import_modules_except_modules_that',(False,False):'be_imported_by_modules_that',(False,True):'be_imported_by_modules_except_modules_that'}[(imp,exc)]
    r=getattr(r,m)()
    return (r.are_named if ok=='named' else r.are_sub_modules_of)(list(obj))
def unrelated(xs): return all(not anc(a,b) and not anc(b,a) for a,b in itertools.combinations(xs,2))
N=int(sys.argv[1]); stats=collections.Counter(); bad=[]
for n in range(2,N+1):
  for t in trees(n):
    ns=nodes(t); leaves=[x for x in ns if not any(anc(x,y) for y in ns)]
    pairs=[(u,v) for u in leaves for v in ns if v!=u and v!='r']
    cand=[x for x in ns if x!='r']
    SO=[]
    for k in range(2,7):
        for xs in itertools.combinations(cand,k):
            if not unrelated(xs): continue
            for s in range(1,min(3,k-1)+1):
                if not 1<=k-s<=3: continue
                for subj in itertools.combinations(xs,s):
                    SO.append((subj, tuple(x for x in xs if x not in subj)))
    for bits in range(2**len(pairs)):
        I={pairs[i] for i in range(len(pairs)) if bits>>i&1}
        ev=arch(ns, sorted(I))
        for subj,obj in SO:
          for sk in ('named','sub'):
            for ok in ('named','sub'):
              for verb in VERBS:
                for imp in (True,False):
                  for exc in (False,True):
                    e1=model(ns,I,verb,imp,exc,sk,subj,ok,obj,True); e2=model(ns,I,verb,imp,exc,sk,subj,ok,obj,False)
                    got=run(mkrule(verb,imp,exc,sk,subj,ok,obj),ev)[0]
                    if e1!=e2: stats['ambiguous']+=1; continue
                    exp='PASS' if e1 else 'FAIL'
                    stats[(verb,exc,exp)]+=1
                    if got!=exp:
                        stats['BAD']+=1
                        if len(bad)<15: bad.append((ns,sorted(I),verb,imp,exc,sk,subj,ok,obj,exp,got))
print(stats); 
for b in bad: print(b)
