"""C10 trial: external options model vs real scans."""
import os, shutil, itertools, collections, re, sys
from pytestarch import get_evaluable_architecture
BASE='/dev/shm/pta_p10'
def edges(ev):
    g=ev._graph._graph
    return {(u,v) for u,v,d in g.edges(data=True) if not d['inherits']}
def mat(tree):
    shutil.rmtree(BASE, ignore_errors=True)
    for p,c in tree.items():
        fp=os.path.join(BASE,p); os.makedirs(os.path.dirname(fp),exist_ok=True); open(fp,'w').write(c)
def glob_match(p,s):
    lead=p.startswith('*'); trail=p.endswith('*'); core=p[(1 if lead else 0):(len(p)-1 if trail else len(p))]
    return (core in s) if lead and trail else s.endswith(core) if lead else s.startswith(core) if trail else s==core
def parents(n):
    ps=n.split('.'); return ['.'.join(ps[:i]) for i in range(1,len(ps))]
FILES={'top/proj/a.py','top/proj/handlers.py','top/proj/sub/os.py','top/proj/sub/m.py','top/projx/y.py','top/other.py'}
EXT=['os','os.path','x.y.z','handlers','topx.q','top.projx.y','top.other']
INT_T=['top.proj.handlers','top.proj.sub.m','top.proj.sub.os']
stats=collections.Counter(); bad=collections.defaultdict(list)
for mp in ('top','top/proj','top/proj/sub'):
    mpd=mp.replace('/','.')
    internal={f[:-3].replace('/','.') for f in FILES if f.startswith(mp+'/')}|{os.path.dirname(f).replace('/','.') for f in FILES if os.path.dirname(f)==mp or os.path.dirname(f).startswith(mp+'/')}|{mpd}
    anc=set(parents(mpd))
    importers=sorted(f for f in FILES if f.startswith(mp+'/'))[:2]
    for imp_file in importers:
        me=imp_file[:-3].replace('/','.')
        for targets in itertools.chain(itertools.combinations(EXT+INT_T,1), itertools.combinations(EXT+INT_T,2)):
            tree={f:'' for f in FILES}; tree[imp_file]=''.join(f'import {t}\n' for t in targets)
            mat(tree)
            base=get_evaluable_architecture(os.path.join(BASE,'top'), os.path.join(BASE,mp))
            bm,be=set(base.modules),edges(base)
            int_e={(me,t) for t in targets if t in internal and t!=me and not me.startswith(t+'.')}
            stats['n']+=1
            if bm!=internal|anc or {e for e in be if not e[0].startswith(e[1]+'.')}!=int_e: bad['default'].append((mp,imp_file,targets,sorted(bm^(internal|anc)),sorted(be^int_e)))
            ext_t=[t for t in targets if t not in internal and not (t==mpd or mpd.startswith(t+'.'))]
            names=sorted(set(ext_t)|{p for t in ext_t for p in parents(t)}|{'top.proj.handlers','top.proj.sub.os'})
            pats=[()]+[(n,) for n in names]+[('*'+n.split('.')[-1],) for n in names]+[(n.split('.')[0]+'*',) for n in names]
            for pat in dict.fromkeys(pats):
                for mode in ('glob','regex'):
                    kw={'external_exclusions':pat} if mode=='glob' else {'regex_external_exclusions':tuple(re.escape(p.strip('*')).join(['.*' if p.startswith('*') else '', '.*' if p.endswith('*') else '$']) for p in pat)}
                    if not pat: kw={}
                    try: ev=get_evaluable_architecture(os.path.join(BASE,'top'), os.path.join(BASE,mp), exclude_external_libraries=False, **kw)
                    except Exception as e: bad['err'].append((mp,targets,pat,repr(e))); continue
                    gm,ge=set(ev.modules),edges(ev)
                    excl=lambda n: any(glob_match(p,x) for p in pat for x in [n]+parents(n))
                    kept=[t for t in ext_t if not excl(t)]
                    exp_m=internal|anc|set(kept)|{p for t in kept for p in parents(t)}
                    exp_e=int_e|{(me,t) for t in kept}
                    stats['cfg']+=1
                    ge2={e for e in ge if not e[0].startswith(e[1]+'.')}
                    if (gm & internal)!=internal or {e for e in ge2 if e[1] in internal}!=int_e: bad['internal_changed'].append((mp,imp_file,targets,pat,mode,sorted(internal-gm)))
                    elif gm!=exp_m or ge2!=exp_e: bad['external'].append((mp,imp_file,targets,pat,mode,sorted(gm^exp_m),sorted(ge2^exp_e)))
shutil.rmtree(BASE, ignore_errors=True)
print(stats,{k:len(v) for k,v in bad.items()})
for k,v in bad.items():
    for b in v[:5]: print(k,b)
