import itertools, sys, collections
from h import *
from sz import trees, nodes, anc
from proto_defs import mkrule
N=int(sys.argv[1]); stats=collections.Counter(); bad=collections.defaultdict(list)
for n in range(3,N+1):
  for t in trees(n):
    ns=nodes(t)
    leaves=[x for x in ns if not any(anc(x,y) for y in ns)]
    pairs=[(u,v) for u in leaves for v in ns if v!=u and v!='r']
    for bits in range(2**len(pairs)):
        I={pairs[i] for i in range(len(pairs)) if bits>>i&1}
        ev=arch(ns, sorted(I))
        for ssz in (1,2,3):
          for subj in itertools.combinations(ns,ssz):
            rest=[x for x in ns if x not in subj]
            for osz in (1,2):
              for obj in itertools.combinations(rest,osz):
                if ssz==1 and osz==1: continue
                for sk in ('named','sub'):
                  for ok in ('named','sub'):
                    for verb in ('should','should_only','should_not'):
                      for imp in (True,False):
                        for exc in (False,True):
                          whole=run(mkrule(verb,imp,exc,sk,subj,ok,obj),ev)[0]
                          per_s=[run(mkrule(verb,imp,exc,sk,(s,),ok,obj),ev)[0] for s in subj]
                          conj='PASS' if all(x=='PASS' for x in per_s) else 'FAIL'
                          stats['subj']+=1
                          if whole!=conj: bad['subj'].append((sorted(I),verb,imp,exc,sk,subj,ok,obj,whole,per_s))
                          if not exc and verb in('should','should_not'):
                              per_o=[run(mkrule(verb,imp,exc,sk,subj,ok,(o,)),ev)[0] for o in obj]
                              conj='PASS' if all(x=='PASS' for x in per_o) else 'FAIL'
                              stats['obj']+=1
                              if whole!=conj: bad['obj'].append((sorted(I),verb,imp,exc,sk,subj,ok,obj,whole,per_o))
print(stats,{k:len(v) for k,v in bad.items()})
for k,v in bad.items():
    for b in v[:8]: print(k,b)
