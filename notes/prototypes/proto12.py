import itertools, sys, collections
from h import *
from sz import trees, nodes, anc
from proto_defs import mkrule
N=int(sys.argv[1]); stats=collections.Counter(); bad=collections.defaultdict(list)
def v(ev,verb,imp,exc,sk,s,ok,o): return run(mkrule(verb,imp,exc,sk,(s,),ok,(o,)),ev)[0]
for n in range(2,N+1):
  for t in trees(n):
    ns=nodes(t); leaves=[x for x in ns if not any(anc(x,y) for y in ns)]
    pairs=[(u,v_) for u in leaves for v_ in ns if v_!=u and v_!='r']
    cand=[x for x in ns]
    for bits in range(2**len(pairs)):
        I={pairs[i] for i in range(len(pairs)) if bits>>i&1}
        ev=arch(ns, sorted(I))
        for s,o in itertools.permutations(cand,2):
          for sk in ('named','sub'):
            for ok in ('named','sub'):
              R={}
              for verb in ('should','should_only','should_not'):
                for imp in (True,False):
                  for exc in (False,True):
                    R[(verb,imp,exc)]=v(ev,verb,imp,exc,sk,s,ok,o)
              # duality: s should import o  == o should be imported by s
              for verb in ('should','should_not'):
                a=R[(verb,True,False)]; b=v(ev,verb,False,False,ok,o,sk,s)
                stats['dual']+=1
                if a!=b: bad['dual'].append((sorted(I),verb,sk,s,ok,o,a,b))
              for imp in (True,False):
                stats['neg']+=2
                if (R[('should',imp,False)]=='PASS')==(R[('should_not',imp,False)]=='PASS'): bad['neg'].append((sorted(I),imp,sk,s,ok,o,R[('should',imp,False)],R[('should_not',imp,False)]))
                if (R[('should',imp,True)]=='PASS')==(R[('should_not',imp,True)]=='PASS'): bad['negx'].append((sorted(I),imp,sk,s,ok,o,R[('should',imp,True)],R[('should_not',imp,True)]))
                if (R[('should_only',imp,False)]=='PASS')!=(R[('should',imp,False)]=='PASS' and R[('should_not',imp,True)]=='PASS'): bad['dec'].append((sorted(I),imp,sk,s,ok,o))
                if (R[('should_only',imp,True)]=='PASS')!=(R[('should',imp,True)]=='PASS' and R[('should_not',imp,False)]=='PASS'): bad['decx'].append((sorted(I),imp,sk,s,ok,o))
print(stats, {k:len(x) for k,x in bad.items()})
for k,x in bad.items():
    for b in x[:6]: print(k,b)
