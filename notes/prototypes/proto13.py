import itertools, collections, warnings
warnings.simplefilter('ignore')
from h import *
ev_pass = arch(['r','r.a','r.b','r.c'], [('r.a','r.b')])
CALLS = {
 'modules_that': lambda r: r.modules_that(),
 'named_a': lambda r: r.are_named('r.a'),
 'named_b': lambda r: r.are_named('r.b'),
 'sub_r': lambda r: r.are_sub_modules_of('r'),
 'match': lambda r: r.have_name_matching(r'r\.c$'),
 'contain': lambda r: r.have_name_containing('*c'),
 'should': lambda r: r.should(),
 'should_only': lambda r: r.should_only(),
 'should_not': lambda r: r.should_not(),
 'imp': lambda r: r.import_modules_that(),
 'impx': lambda r: r.import_modules_except_modules_that(),
 'bimp': lambda r: r.be_imported_by_modules_that(),
 'bimpx': lambda r: r.be_imported_by_modules_except_modules_that(),
 'any': lambda r: r.import_anything(),
 'bany': lambda r: r.be_imported_by_anything(),
}
MODS={'named_a','named_b','sub_r','match','contain'}
def spec(hist):
    """independent automaton: returns MUST_ERROR / COMPLETE / DONT_CARE"""
    side=None; subj=False; obj=False; verbs=set(); imp=False; anything=False; weird=False
    for c in hist:
        if c=='modules_that':
            if side is not None: weird=True   # restart / repeated
            side='S'
        elif c in MODS:
            if side is None: return 'MUST_ERROR'   # raised at the call
            if side=='S':
                if subj: weird=True
                subj=True
            else:
                if obj: weird=True
                obj=True
        elif c in ('should','should_only','should_not'):
            if c in verbs: weird=True
            verbs.add(c)
        elif c in ('imp','impx','bimp','bimpx'):
            if imp: weird=True
            imp=True; side='O'
        else:
            if imp: weird=True
            imp=True; anything=True; side='O'
    if 'should_not' in verbs and len(verbs)>1: return 'MUST_ERROR'
    if anything and verbs and verbs!={'should_not'}: 
        if not (obj): return 'MUST_ERROR'
    if not subj or not verbs or not imp or (not obj and not anything): return 'MUST_ERROR'
    if weird or (anything and obj) or len(verbs)>1: return 'DONT_CARE'
    # order: subject must come first
    return 'COMPLETE'
stats=collections.Counter(); bad=collections.defaultdict(list)
names=list(CALLS)
for L in range(0,5):
    for hist in itertools.product(names, repeat=L):
        r=Rule(); err=None
        for c in hist:
            try: CALLS[c](r)
            except Exception as e: err=('call',c,type(e).__name__); break
        if err is None:
            res=run(r, ev_pass)
            out=res[0]
        else: out='ERR'
        cls=spec(hist); stats[(cls,out)]+=1
        if cls=='MUST_ERROR' and out!='ERR': bad['must_error'].append((hist,res))
        if cls=='COMPLETE' and out=='ERR': bad['complete_err'].append((hist,err or res))
print(stats,{k:len(v) for k,v in bad.items()})
for k,v in bad.items():
    for b in v[:12]: print(k,b)
