"""C17 trial: label model vs intercepted draw_networkx."""
import itertools, collections, sys
from h import *
from sz import trees, nodes
import pytestarch.eval_structure.networkxgraph as ng
cap={}
ng.draw_networkx=lambda g, **kw: (cap.clear(), cap.update(kw))
ADV={'a':'a','b':'ab','c':'a_b','d':'aa'}
def rename(n): return '.'.join(ADV.get(p,p) for p in n.split('.'))
def model(mods, aliases):
    out={}
    for m in mods:
        best=None
        for k in aliases:
            if m==k or m.startswith(k+'.'):
                if best is None or len(k)>len(best): best=k
        out[m]= m if best is None else aliases[best]+m[len(best):]
    return out
stats=collections.Counter(); bad=[]
AL=['A','x.y','a+b','(','']
for n in range(2,int(sys.argv[1])+1):
  for t in trees(n):
    mods=[rename(x) for x in nodes(t)]
    ev=arch(mods, [])
    for k in range(0,4):
        for keys in itertools.combinations(mods,k):
            for vals in itertools.product(AL[:3] if k>1 else AL, repeat=k):
                al=dict(zip(keys,vals))
                for extra in ({}, {'node_size':7}, {'spacing':1.5}):
                    ev.visualize(aliases=dict(al), **extra)
                    stats['n']+=1
                    exp=model(mods, al)
                    if cap.get('labels')!=exp or any(cap.get(k_)!=v for k_,v in extra.items() if k_!='spacing') or ('spacing' in cap) or (('spacing' in extra) and set(cap.get('pos',{}))!=set(mods)):
                        stats['bad']+=1
                        if len(bad)<6: bad.append((mods,al,extra,cap.get('labels'),exp))
    try:
        ev.visualize(aliases={'r.nope':'Z'}); stats['unknown_accepted']+=1
    except Exception as e:
        stats['unknown_'+type(e).__name__+('_named' if 'r.nope' in str(e) else '_anon')]+=1
print(stats)
for b in bad: print(b)
