import itertools, sys, collections, re
from h import *
from sz import trees, nodes, anc
from proto_defs import *
LINE_REAL=re.compile(r'^"([^"]+)" (imports|is imported by) "([^"]+)"\.$')
LINE_MISS=re.compile(r'^(Sub modules of )?"([^"]+)" (does not import|do not import|is not imported by|are not imported by) (any module that is not )?(.+)\.$')
def parse(msg):
    real=set(); miss={}
    for line in msg.split('\n'):
        m=LINE_REAL.match(line)
        if m: real.add((m.group(1), m.group(3))); continue
        m=LINE_MISS.match(line)
        if not m: raise ValueError('unparsable: '+line)
        objs=tuple(sorted(re.findall(r'(a sub module of )?"([^"]+)"', m.group(5))))
        miss[(bool(m.group(1)), m.group(2), bool(m.group(4)))]=objs
    return real, miss
def model_msgs(ns,I,verb,imp,exc,sk,subj,ok,obj,parent_inside):
    Ssets={s:S(sk,s,ns) for s in subj}; Osets={o:S(ok,o,ns) for o in obj}
    E = I if imp else {(v,u) for u,v in I}
    allO=set().union(*Osets.values())
    edges=lambda s,o: {(u,v) for u,v in E if u in Ssets[s] and v in Osets[o]}
    def others(s): return {(u,v) for u,v in E if u in Ssets[s] and v not in Ssets[s] and v not in allO and not (sk=='sub' and v==s and parent_inside)}
    real=set(); miss={}
    need_edge = verb in('should','should_only') and not exc
    forbid_edge = (verb=='should_not' and not exc) or (verb=='should_only' and exc)
    need_other = verb in('should','should_only') and exc
    forbid_other = (verb=='should_not' and exc) or (verb=='should_only' and not exc)
    for s in subj:
        if need_edge:
            m=[o for o in obj if not edges(s,o)]
            if m: miss[(sk=='sub', s, False)]=tuple(sorted((('a sub module of ' if ok=='sub' else ''), o) for o in m))
        if forbid_edge:
            for o in obj: real|=edges(s,o)
        if need_other and not others(s): miss[(sk=='sub', s, True)]=tuple(sorted((('a sub module of ' if ok=='sub' else ''), o) for o in obj))
        if forbid_other: real|=others(s)
    return real, miss
N=int(sys.argv[1]); stats=collections.Counter(); bad=[]
for n in range(2,N+1):
  for t in trees(n):
    ns=nodes(t); leaves=[x for x in ns if not any(anc(x,y) for y in ns)]
    pairs=[(u,v) for u in leaves for v in ns if v!=u and v!='r']
    cand=[x for x in ns if x!='r']
    SO=[]
    for k in range(2,7):
        for xs in itertools.combinations(cand,k):
            if not unrelated(xs): continue
            for s in range(1,min(3,k-1)+1):
                if not 1<=k-s<=3: continue
                for subj in itertools.combinations(xs,s):
                    SO.append((subj, tuple(x for x in xs if x not in subj)))
    for bits in range(2**len(pairs)):
        I={pairs[i] for i in range(len(pairs)) if bits>>i&1}
        ev=arch(ns, sorted(I))
        for subj,obj in SO:
          for sk in ('named','sub'):
            for ok in ('named','sub'):
              for verb in VERBS:
                for imp in (True,False):
                  for exc in (False,True):
                    m1=model_msgs(ns,I,verb,imp,exc,sk,subj,ok,obj,True); m2=model_msgs(ns,I,verb,imp,exc,sk,subj,ok,obj,False)
                    got=run(mkrule(verb,imp,exc,sk,subj,ok,obj),ev)
                    if m1!=m2: stats['ambiguous']+=1; continue
                    if got[0]=='PASS':
                        if m1!=(set(),{}): stats['BADV']+=1
                        continue
                    try: g=parse(got[1])
                    except ValueError as e: stats['UNPARSE']+=1; bad.append(str(e)); continue
                    stats['judged']+=1
                    if g!=m1:
                        stats['BAD']+=1
                        if len(bad)<12: bad.append((sorted(I),verb,imp,exc,sk,subj,ok,obj,'exp',m1,'got',g))
print(stats)
for b in bad: print(b)
