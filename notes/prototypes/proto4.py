import os, shutil, itertools, collections, sys
from pytestarch import get_evaluable_architecture
BASE='/dev/shm/pta_p4'
def edges(ev):
    g=ev._graph._graph
    return {(u,v) for u,v,d in g.edges(data=True) if not d['inherits']}
# tree = dict path->content ; dirs implied; explicit empty dirs as path ending with '/'
def materialize(tree):
    shutil.rmtree(BASE, ignore_errors=True)
    for p,c in tree.items():
        fp=os.path.join(BASE,p)
        if p.endswith('/'): os.makedirs(fp, exist_ok=True); continue
        os.makedirs(os.path.dirname(fp), exist_ok=True); open(fp,'w').write(c)
def model(tree, root, mpath):
    # root, mpath: relative dir paths like 'top', 'top/proj'
    rootname=root.split('/')[-1]
    def dotted(p): # path relative to BASE -> dotted from root
        rel=os.path.relpath(p, root)
        return rootname if rel=='.' else rootname+'.'+rel.replace('/','.')
    files=[p for p in tree if p.endswith('.py')]
    dirs=set()
    for p in tree:
        d=p.rstrip('/') if p.endswith('/') else os.path.dirname(p)
        while d and (d==root or d.startswith(root+'/')):
            dirs.add(d); d=os.path.dirname(d)
    inside=lambda p: p==mpath or p.startswith(mpath+'/')
    mods={dotted(d) for d in dirs if inside(d)}|{dotted(f[:-3]) for f in files if inside(f)}
    # ancestors of mpath up to root
    d=mpath
    while True:
        mods.add(dotted(d))
        if d==root: break
        d=os.path.dirname(d)
    internal={m for m in mods if m==dotted(mpath) or m.startswith(dotted(mpath)+'.')}
    prefix=dotted(os.path.dirname(mpath)) if mpath!=root else None
    return mods, internal, prefix
import ast
def model_edges(tree, root, mpath, mods, internal, prefix, strict_from=True):
    rootname=root.split('/')[-1]
    must=set(); may=set()
    def resolve_abs(name):
        if name in internal: return name
        if prefix and f'{prefix}.{name}' in internal: return f'{prefix}.{name}'
        return None
    for p,c in tree.items():
        if not p.endswith('.py') or not (p.startswith(mpath+'/')): continue
        rel=os.path.relpath(p[:-3], root); me=rootname+'.'+rel.replace('/','.')
        pkg=me.rsplit('.',1)[0]
        for node in ast.walk(ast.parse(c)):
            if isinstance(node, ast.Import):
                for a in node.names:
                    t=resolve_abs(a.name)
                    if t: must.add((me,t))
            elif isinstance(node, ast.ImportFrom):
                if node.level==0: P=node.module; Pres=resolve_abs(P)
                else:
                    b=pkg
                    for _ in range(node.level-1): b=b.rsplit('.',1)[0]
                    P=b+('.'+node.module if node.module else ''); Pres=P if P in internal else None
                for a in node.names:
                    # candidate P.n
                    if node.level==0:
                        cand=resolve_abs(P+'.'+a.name) if a.name!='*' else None
                    else:
                        cand=(P+'.'+a.name) if (P+'.'+a.name) in internal else None
                    if cand:
                        must.add((me,cand))
                        if Pres: may.add((me,Pres))
                    elif Pres: must.add((me,Pres))
    drop=lambda e: e[1]!=e[0] and not e[0].startswith(e[1]+'.')
    return {e for e in must if drop(e)}, {e for e in may|must if drop(e)}
names=['a','ab','b']
stats=collections.Counter(); bad=collections.defaultdict(list)
# family: root 'top' with dirs; files at several places
layouts=[
 {'top/a.py','top/ab.py','top/b/__init__.py','top/b/a.py','top/b/ab/a.py'},
 {'top/a/a.py','top/a/b.py','top/ab/a.py','top/b.py'},
 {'top/a/__init__.py','top/a/a/__init__.py','top/a/a/b.py','top/a/ab.py','top/b.py'},
]
forms=['import {T}','import {T} as z','from {P} import {n}','from {P} import {n} as z','from {P} import *','from {P} import nonmod']
for lay in layouts:
    files=sorted(lay); 
    dirs=sorted({os.path.dirname(f) for f in files}|{'top'})
    allmods=set()
    for f in files:
        if not f.endswith('__init__.py'): allmods.add(f[:-3].replace('/','.'))
        d=os.path.dirname(f)
        while d: allmods.add(d.replace('/','.')); d=os.path.dirname(d)
    for imp_file in files:
        for target in sorted(allmods):
            stmts=[]
            stmts+= [f'import {target}', f'import {target} as z']
            if '.' in target:
                P,n=target.rsplit('.',1); stmts+=[f'from {P} import {n}', f'from {P} import {n}, other', f'from {P} import *']
            stmts+=[f'from {target} import nonmod']
            # relative forms
            me=imp_file[:-3].replace('/','.'); pkg=me.rsplit('.',1)[0]
            for lvl in range(1, pkg.count('.')+2):
                b=pkg
                for _ in range(lvl-1): b=b.rsplit('.',1)[0]
                if target.startswith(b+'.'):
                    restn=target[len(b)+1:]
                    if '.' in restn: P,n=restn.rsplit('.',1); stmts+=['from '+'.'*lvl+P+' import '+n]
                    else: stmts+=['from '+'.'*lvl+' import '+restn]
                    stmts+=['from '+'.'*lvl+restn+' import nonmod']
            # mpath-parent-relative absolute forms
            for mp in dirs:
                par=os.path.dirname(mp).replace('/','.')
                if mp!='top' and target.startswith(par+'.'):
                    stmts.append('import '+target[len(par)+1:])
            for st in stmts:
                tree={f:'' for f in files}; tree[imp_file]=st+'\n'
                materialize(tree)
                for mp in dirs:
                    if not imp_file.startswith(mp+'/'): continue
                    mods,internal,prefix=model(tree,'top',mp)
                    must,may=model_edges(tree,'top',mp,mods,internal,prefix)
                    try:
                        ev=get_evaluable_architecture(os.path.join(BASE,'top'), os.path.join(BASE,mp), exclusions=('nomatch',))
                    except Exception as e:
                        stats['ERR']+=1; bad['err'].append((st,imp_file,mp,repr(e))); continue
                    gm=set(ev.modules); ge={e for e in edges(ev) if not e[0].startswith(e[1]+'.')}
                    stats['n']+=1
                    if gm!=mods: bad['mods'].append((sorted(files),mp,sorted(gm^mods)))
                    if not (must<=ge<=may):
                        kind='from' if st.startswith('from') else 'import'
                        bad['edges_'+kind].append((imp_file,st,mp,'missing',sorted(must-ge),'extra',sorted(ge-may)))
shutil.rmtree(BASE, ignore_errors=True)
print(stats,{k:len(v) for k,v in bad.items()})
for k,v in bad.items():
    for b in v[:10]: print(k,b)
