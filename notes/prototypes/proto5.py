import itertools, sys, collections
from h import *
from sz import trees, nodes, anc
from proto_defs import unrelated
def desc(x,ns): return {n for n in ns if n==x or anc(x,n)}
def partitions(xs, maxl):
    # assign each x to layer index 0..maxl-1 or None (no layer); canonical: layers used in order
    def rec(i, assign, used):
        if i==len(xs):
            if used>=2: yield dict(assign)
            return
        for l in list(range(used))+[used] if used<maxl else list(range(used)):
            assign.append((xs[i],l)); yield from rec(i+1, assign, max(used,l+1)); assign.pop()
        assign.append((xs[i],None)); yield from rec(i+1, assign, used); assign.pop()
    yield from rec(0, [], 0)
def lmodel(ns,I,L,subj,objs,verb,imp,exc,alias=False):
    E = I if imp else {(v,u) for u,v in I}
    Ls=set().union(*[desc(m,ns) for m in L[subj]])
    Os={o:set().union(*[desc(m,ns) for m in L[o]]) for o in objs}
    allO=set().union(*Os.values()) if Os else set()
    access=lambda o: any(u in Ls and v in Os[o] for u,v in E)
    other=any(u in Ls and v not in Ls and v not in allO for u,v in E)
    if alias: return not other
    if not exc:
        if verb=='should': return all(access(o) for o in objs)
        if verb=='should_not': return not any(access(o) for o in objs)
        return all(access(o) for o in objs) and not other
    if verb=='should': return other
    if verb=='should_not': return not other
    return other and not any(access(o) for o in objs)
def lrule(L,subj,objs,verb,imp,exc,alias=False):
    la=LayeredArchitecture()
    for name,mods in L.items(): la=la.layer(name).containing_modules(list(mods))
    r=LayerRule().based_on(la).layers_that().are_named(subj)
    r=getattr(r,verb)()
    if alias: return r.access_any_layer() if imp else r.be_accessed_by_any_layer()
    m={(True,False):'access_layers_that',(True,True):'access_layers_except_layers_that',(False,False):'be_accessed_by_layers_that',(False,True):'be_accessed_by_layers_except_layers_that'}[(imp,exc)]
    return getattr(r,m)().are_named(list(objs))
N=int(sys.argv[1]); stats=collections.Counter(); bad=collections.defaultdict(list)
for n in range(3,N+1):
  for t in trees(n):
    ns=nodes(t)
    leaves=[x for x in ns if not any(anc(x,y) for y in ns)]
    pairs=[(u,v) for u in leaves for v in ns if v!=u and v!='r']
    cand=[x for x in ns if x!='r']
    archs=[]
    for k in range(2,5):
        for xs in itertools.combinations(cand,k):
            if not unrelated(xs): continue
            for asg in partitions(list(xs),4):
                L=collections.OrderedDict()
                for m,l in asg.items():
                    if l is not None: L.setdefault(f'L{l}',[]).append(m)
                archs.append(L)
    for bits in range(2**len(pairs)):
        I={pairs[i] for i in range(len(pairs)) if bits>>i&1}
        ev=arch(ns, sorted(I))
        for L in archs:
            names=list(L)
            for subj in names:
                others=[x for x in names if x!=subj]
                for osz in (1,2):
                    for objs in itertools.combinations(others,osz):
                        for verb in ('should','should_only','should_not'):
                            for imp in (True,False):
                                for exc in (False,True):
                                    exp='PASS' if lmodel(ns,I,L,subj,objs,verb,imp,exc) else 'FAIL'
                                    got=run(lrule(L,subj,objs,verb,imp,exc),ev)[0]
                                    stats['n']+=1
                                    if got!=exp: bad[(verb,exc)].append((sorted(I),dict(L),subj,objs,verb,imp,exc,exp,got))
                for imp in (True,False):
                    exp='PASS' if lmodel(ns,I,L,subj,(),'should_not',imp,True,alias=True) else 'FAIL'
                    got=run(lrule(L,subj,(),'should_not',imp,False,alias=True),ev)[0]
                    stats['alias']+=1
                    if got!=exp: bad['alias'].append((sorted(I),dict(L),subj,imp,exp,got))
print(stats,{k:len(v) for k,v in bad.items()})
for k,v in bad.items():
    for b in v[:4]: print(k,b)
