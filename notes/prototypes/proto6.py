"""C06 trial: deviation-bounded diagram generator vs PumlParser (run against patched and unpatched tree)."""
import itertools, collections, sys, os
from pathlib import Path
from pytestarch.diagram_extension.diagram_parser import PumlParser
from pytestarch.diagram_extension.exceptions import PumlParsingError
TMP=Path('/dev/shm/proto6.puml')
NAMES=['A','m_2','src.B']
ALIAS={'A':'al_a','m_2':'al_m','src.B':'al_b'}
DECL=['[{n}]','none','component {n}','component [{n}]','[{n}] as {al}','component [{n}] as {al}']
ARROWS=[('-->',True),('->',True),('<--',False),('<-',False),('-up->',True),('<-down-',False)]
REFS=['br','bare','alias']
NOISE=[('',''),('some text [X] --> [Y]\n',''),('','\nafter [P] <- [Q]'),('intro\n','\noutro')]
MAXDEV=int(sys.argv[1]) if len(sys.argv)>1 else 2
stats=collections.Counter(); bad=[]
def ref(n, kind, decl):
    if kind=='br': return f'[{n}]'
    if kind=='bare': return n
    return ALIAS[n]
for k in (2,3):
    comps=NAMES[:k]
    pairs=list(itertools.permutations(comps,2))
    for dbits in range(2**len(pairs)):
        D=[pairs[i] for i in range(len(pairs)) if dbits>>i&1]
        # choice points: decl per comp (6), per arrow: form(6), ref each end (3,3); order (decl-first / arrows-first / reversed lines), noise(4)
        cps=[('decl',c) for c in comps]+[x for a in D for x in (('arrow',a),('refL',a),('refR',a))]+[('order',),('noise',)]
        sizes=[len(DECL) if c[0]=='decl' else len(ARROWS) if c[0]=='arrow' else 3 if c[0] in('refL','refR','order') else 4 for c in cps]
        for ndev in range(0,MAXDEV+1):
            for idxs in itertools.combinations(range(len(cps)),ndev):
                for vals in itertools.product(*[range(1,sizes[i]) for i in idxs]):
                    ch=dict(zip(idxs,vals))
                    get=lambda i: ch.get(i,0)
                    decl={c:DECL[get(i)] for i,c in enumerate(comps)}
                    has_alias={c:'as' in decl[c] for c in comps}
                    lines_d=[decl[c].format(n=c,al=ALIAS[c]) for c in comps if decl[c]!='none']
                    lines_a=[]; okcase=True
                    base=len(comps)
                    for j,a in enumerate(D):
                        form,ltr=ARROWS[get(base+3*j)]
                        rl=REFS[get(base+3*j+1)]; rr=REFS[get(base+3*j+2)]
                        src,dst=a
                        left,right=(src,dst) if ltr else (dst,src)
                        for n,rk in ((left,rl),(right,rr)):
                            if rk=='alias' and not has_alias[n]: okcase=False
                        lines_a.append(f'{ref(left,rl,decl)} {form} {ref(right,rr,decl)}')
                    if not okcase: stats['skip_alias']+=1; continue
                    order=get(len(cps)-2); noise=NOISE[get(len(cps)-1)]
                    body=lines_d+lines_a if order==0 else lines_a+lines_d if order==1 else list(reversed(lines_d+lines_a))
                    txt=noise[0]+'@startuml\n'+'\n'.join(body)+'\n@enduml'+noise[1]
                    TMP.write_text(txt)
                    exp_mods={c for c in comps if decl[c]!='none'}|{x for a in D for x in a}
                    exp_deps={}
                    for s,d in D: exp_deps.setdefault(s,set()).add(d)
                    try:
                        r=PumlParser().parse(TMP); got=(set(r.all_modules),{k:set(v) for k,v in r.dependencies.items()})
                    except Exception as e: got=('ERR',repr(e))
                    stats['n']+=1
                    if got!=(exp_mods,exp_deps):
                        stats['bad']+=1
                        if len(bad)<12: bad.append((txt,got,(exp_mods,exp_deps)))
print(stats)
for b in bad: print('----\n'+b[0]+'\n got',b[1],'\n exp',b[2])
