import itertools, sys, collections, tempfile, os
from pathlib import Path
from h import *
from pytestarch import DiagramRule
from sz import trees, nodes, anc
from proto_defs import unrelated
def desc(x,ns): return {n for n in ns if n==x or anc(x,n)}
N=int(sys.argv[1]); stats=collections.Counter(); bad=collections.defaultdict(list)
tmp=Path('/dev/shm/proto7.puml')
for n in range(3,N+1):
  for t in trees(n):
    ns=nodes(t)
    leaves=[x for x in ns if not any(anc(x,y) for y in ns)]
    pairs=[(u,v) for u in leaves for v in ns if v!=u and v!='r']
    cand=[x for x in ns if x!='r']
    for k in (2,3):
      for comps in itertools.combinations(cand,k):
        if not unrelated(comps): continue
        cp=list(itertools.permutations(comps,2))
        for dbits in range(2**len(cp)):
            D={cp[i] for i in range(len(cp)) if dbits>>i&1}
            short={c:c.replace('.','_') for c in comps}
            lines=['@startuml']+[f'[{short[c]}]' for c in comps]+[f'[{short[a]}] --> [{short[b]}]' for a,b in sorted(D)]+['@enduml']
            tmp.write_text('\n'.join(lines))
            for bits in range(2**len(pairs)):
                I={pairs[i] for i in range(len(pairs)) if bits>>i&1}
                # evaluable with renamed flat comps: components named r.<short>? use base module trick: names are x_y so need modules named so -> skip; instead use dotted? not supported. use mapping graph names
                ren=lambda x: x
                for only in (True,False):
                    imp=lambda a,b: any(u in desc(a,ns) and v in desc(b,ns) for u,v in I)
                    ok=all(imp(a,b)==((a,b) in D) for a,b in cp)
                    if only:
                        for a in comps:
                            tg={b for (x,b) in D if x==a}
                            if tg:
                                allowed=desc(a,ns).union(*[desc(b,ns) for b in tg])
                                if any(u in desc(a,ns) and v not in allowed for u,v in I): ok=False
                    # build evaluable whose module names are the short names under base 'q': rename each module m -> q.<m with dots->_>? hierarchy lost. So instead keep hierarchy: use last components unique? comps share prefix 'r.' -> use with_base_module('r') when all comps are depth-1; else skip
                    if any(c.count('.')!=1 for c in comps): stats['skip']+=1; continue
                    tmp.write_text('\n'.join(['@startuml']+[f'[{c[2:]}]' for c in comps]+[f'[{a[2:]}] --> [{b[2:]}]' for a,b in sorted(D)]+['@enduml']))
                    ev=arch(ns, sorted(I))
                    got=run(DiagramRule(should_only_rule=only).from_file(tmp).with_base_module('r'),ev)[0]
                    stats['n']+=1
                    if got!=('PASS' if ok else 'FAIL'): bad[only].append((ns,sorted(I),comps,sorted(D),only,ok,got))
print(stats,{k:len(v) for k,v in bad.items()})
for k,v in bad.items():
    for b in v[:6]: print(k,b)
