import itertools, re, collections
from pytestarch.utils.partial_match_to_regex_converter import convert_partial_match_to_regex as conv
SIG='ab*.+$'; SUB='ab.+$'
subs=[''.join(s) for L in range(0,5) for s in itertools.product(SUB,repeat=L)]
def model(p,s):
    lead=p.startswith('*'); trail=p.endswith('*')
    core=p[(1 if lead else 0):(len(p)-1 if trail else len(p))]
    if lead and trail: return core in s
    if lead: return s.endswith(core)
    if trail: return s.startswith(core)
    return s==core
bad=[]; n=0
for L in range(0,5):
    for p in itertools.product(SIG,repeat=L):
        p=''.join(p); rx=re.compile(conv(p))
        for s in subs:
            n+=1
            if (rx.match(s) is not None)!=model(p,s): bad.append((p,conv(p),s))
print(n,len(bad),bad[:10])
