import itertools, sys, collections
from h import *
from sz import trees, nodes, anc
from proto_defs import mkrule, unrelated
def trunc(n,k): return '.'.join(n.split('.')[:k+1])
def snapshot(ev):
    g=ev._graph._graph
    return set(g.nodes), {(u,v) for u,v,d in g.edges(data=True) if not d['inherits']}, {(u,v) for u,v,d in g.edges(data=True) if d['inherits']}
N=int(sys.argv[1]); stats=collections.Counter(); bad=collections.defaultdict(list)
for n in range(3,N+1):
  for t in trees(n):
    ns=nodes(t); depth=max(x.count('.') for x in ns)
    leaves=[x for x in ns if not any(anc(x,y) for y in ns)]
    pairs=[(u,v) for u in leaves for v in ns if v!=u and v!='r']
    for bits in range(2**len(pairs)):
        I={pairs[i] for i in range(len(pairs)) if bits>>i&1}
        full=arch(ns, sorted(I))
        for k in range(1,depth+1):
            lim=arch(ns, sorted(I), level_limit=k)
            nodes_q={trunc(x,k) for x in ns}
            imp_q={(trunc(u,k),trunc(v,k)) for u,v in I if trunc(u,k)!=trunc(v,k)}
            hier_q={(a,b) for a in nodes_q for b in nodes_q if b.startswith(a+'.') and b.count('.')==a.count('.')+1}
            got=snapshot(lim); stats['quot']+=1
            # an edge pair that is both hierarchy and import cannot be represented: note
            if got[0]!=nodes_q or got[1]!=imp_q-hier_q or got[2]!=hier_q:
                if imp_q & hier_q: stats['conflict']+=1
                else: bad['quot'].append((ns,sorted(I),k,got,nodes_q,imp_q))
            # verdict preservation
            cand=[x for x in nodes_q]
            for s,o in [(a,b) for a,b in itertools.permutations(cand,2) if unrelated((a,b))]:
                for sk in ('named','sub'):
                    if sk=='sub' and s.count('.')>=k: continue
                    for ok in ('named','sub'):
                        if ok=='sub' and o.count('.')>=k: continue
                        for verb in ('should','should_only','should_not'):
                            for imp in (True,False):
                                for exc in (False,True):
                                    a=run(mkrule(verb,imp,exc,sk,(s,),ok,(o,)),full)[0]; b=run(mkrule(verb,imp,exc,sk,(s,),ok,(o,)),lim)[0]
                                    stats['verd']+=1
                                    if a!=b: bad['verd'].append((ns,sorted(I),k,verb,imp,exc,sk,s,ok,o,a,b))
print(stats,{k:len(v) for k,v in bad.items()})
for k,v in bad.items():
    for b in v[:8]: print(k,b)
