import itertools
def trees(n):
    # rooted unlabeled trees with n nodes as canonical nested tuples
    if n==1: return [()]
    res=set()
    def parts(k, mx):
        if k==0: yield []; return
        for p in range(min(k,mx),0,-1):
            for rest in parts(k-p,p): yield [p]+rest
    for ps in parts(n-1,n-1):
        opts=[trees(p) for p in ps]
        for combo in itertools.product(*opts):
            res.add(tuple(sorted(combo, reverse=True)))
    return sorted(res)
def nodes(t, name='r'):
    out=[name]
    for i,c in enumerate(t): out+=nodes(c, f'{name}.{"abcdef"[i]}')
    return out
def anc(a,b): return b.startswith(a+'.')
tot_g=0; tot_e=0
for n in range(2,7):
    for t in trees(n):
        ns=nodes(t); leaves=[x for x in ns if not any(anc(x,y) for y in ns)]
        pairs=[(u,v) for u in leaves for v in ns if v!=u and v!='r']
        # antichains for subjects/objects: choose disjoint nonempty S,O (<=3 each) pairwise unrelated among non-root nodes
        cand=[x for x in ns if x!='r']
        def unrelated(xs): return all(not anc(a,b) and not anc(b,a) for a,b in itertools.combinations(xs,2))
        so=0
        for k in range(2,7):
            for xs in itertools.combinations(cand,k):
                if not unrelated(xs): continue
                for s in range(1,min(3,k-1)+1):
                    o=k-s
                    if o<1 or o>3: continue
                    so+= len(list(itertools.combinations(xs,s)))
        alias=sum(1 for k in (1,2,3) for xs in itertools.combinations(cand,k) if unrelated(xs))
        rules=so*4*12+alias*2*2
        g=2**len(pairs)
        print(n, t, 'nodes',len(ns),'leaves',len(leaves),'pairs',len(pairs),'graphs',g,'rules',rules,'evals',g*rules)
        tot_g+=g; tot_e+=g*rules
    pass
