"""Re-execute one replay file against the current tree, without any explorer.

usage: /venv/bin/python /verif/replay.py <replay.json>
exit 1 (and a VIOLATION line) if the recorded case still violates the property, 0 if not."""

from __future__ import annotations

import importlib
import json
import os
import sys

sys.path.insert(0, os.path.dirname(os.path.abspath(__file__)))


def main() -> int:
    path = sys.argv[1]
    with open(path) as f:
        rec = json.load(f)
    mod = importlib.import_module(f"mc.checks.{rec['property'].lower()}")
    if rec.get("shard") is not None:
        # history-dependent violation: re-run the enclosing shard from this fresh interpreter
        try:
            res = mod.run_shard(rec["shard"], rec.get("tier", "quick"), rec.get("seed", 0))
            found = [v for v in res.violations if v["kind"] == rec["kind"]] or res.violations
        except Exception as e:  # noqa: BLE001 - the implementation raised where a result is promised
            import traceback

            from mc.common import PTA_SRC

            tb = traceback.extract_tb(e.__traceback__)
            if tb and os.path.realpath(tb[-1].filename).startswith(os.path.realpath(PTA_SRC) + os.sep):
                found = [{"kind": "implementation-raised-where-the-property-promises-a-result", "case": rec.get("case"),
                          "expected": "no exception", "observed": f"{type(e).__name__}: {e}"}]
            else:
                raise
    else:
        found = mod.replay(rec)
    if found:
        print(f"VIOLATION property={rec['property']} replay={os.path.abspath(path)}")
        for v in found[:5]:
            print("  kind=%s" % v.get("kind"))
            print("  case=%s" % json.dumps(v.get("case"), default=str)[:600])
            print("  expected=%s" % json.dumps(v.get("expected"), default=str)[:400])
            print("  observed=%s" % json.dumps(v.get("observed"), default=str)[:400])
        return 1
    print(f"no violation: property={rec['property']} case holds on the current tree")
    return 0


if __name__ == "__main__":
    sys.exit(main())
