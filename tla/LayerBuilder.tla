------------------------------ MODULE LayerBuilder ------------------------------
(* Protocol model of the LayeredArchitecture builder (property C16).             *)
(* A definition is a sequence of layers; a layer is pending until it receives     *)
(* its modules (a list of names or one regex).  hist records every call, so two   *)
(* different call sequences are never merged and every model state can be         *)
(* replayed against the implementation (mc/conform_tla.py).                       *)
EXTENDS Sequences, Naturals, FiniteSets, TLC, Json

CONSTANTS Layers, Mods, Regexes, MaxDepth

VARIABLES defs, hist

Idx == 1..Len(defs)
Pending == {i \in Idx : defs[i].kind = "pending"}
NamedIdx == {i \in Idx : defs[i].kind = "names"}
ModsOf(i) == {defs[i].mods[j] : j \in 1..Len(defs[i].mods)}
RegexIdx == {i \in Idx : defs[i].kind = "regex"}
(* identifiers already given to some layer: listed names, and regex strings (a name that is    *)
(* spelled exactly like an earlier layer's regex would put that module into two layers)        *)
Assigned == UNION {ModsOf(i) : i \in NamedIdx \cup RegexIdx}
Names == {defs[i].name : i \in Idx}

ModLists == {<<m>> : m \in Mods} \cup {<<p[1], p[2]>> : p \in {q \in Mods \X Mods : q[1] # q[2]}}

Init == defs = <<>> /\ hist = <<>>

Fill(i, k, ms) == defs' = [defs EXCEPT ![i] = [name |-> defs[i].name, kind |-> k, mods |-> ms]]

Layer(l) ==
    /\ Pending = {}
    /\ l \notin Names
    /\ defs' = Append(defs, [name |-> l, kind |-> "pending", mods |-> <<>>])
    /\ hist' = Append(hist, <<"layer", l>>)

ContainStr(m) ==
    /\ Cardinality(Pending) = 1
    /\ m \notin Assigned
    /\ \E i \in Pending : Fill(i, "names", <<m>>)
    /\ hist' = Append(hist, <<"cm_str", m>>)

ContainList(ms) ==
    /\ Cardinality(Pending) = 1
    /\ \A j \in 1..Len(ms) : ms[j] \notin Assigned
    /\ \E i \in Pending : Fill(i, "names", ms)
    /\ hist' = Append(hist, <<"cm_list", ms>>)

Regex(r) ==
    /\ Cardinality(Pending) = 1
    /\ \E i \in Pending : Fill(i, "regex", <<r>>)
    /\ hist' = Append(hist, <<"regex", r>>)

Next ==
    /\ Len(hist) < MaxDepth
    /\ \/ \E l \in Layers : Layer(l)
       \/ \E m \in Mods : ContainStr(m)
       \/ \E ms \in ModLists : ContainList(ms)
       \/ \E r \in Regexes : Regex(r)

Spec == Init /\ [][Next]_<<defs, hist>>

(* ---- well-formedness invariants of every reachable definition ---- *)
OneLayerPerModule ==
    /\ \A i, j \in NamedIdx : i # j => ModsOf(i) \cap ModsOf(j) = {}
    /\ \A i \in NamedIdx : Cardinality(ModsOf(i)) = Len(defs[i].mods)
UniqueLayerNames == \A i, j \in Idx : i # j => defs[i].name # defs[j].name
PendingLayerIsLast == \A i \in Pending : i = Len(defs)
NoEmptyClosedLayer == \A i \in Idx : defs[i].kind # "pending" => Len(defs[i].mods) > 0

(* every distinct state is written out for the conformance replay *)
Dump == PrintT(<<"STATE", ToJson([hist |-> hist, defs |-> defs])>>)
=================================================================================
