---------------------------- MODULE LayerRuleBuilder ----------------------------
(* Protocol model of the fluent LayerRule builder (properties C16 b and C13 b).   *)
(* The state records what has been supplied so far:                               *)
(*   arch      based_on(architecture) was called                                  *)
(*   rule      layers_that() was called (a rule is being specified)               *)
(*   phase     which side the next are_named fills: "none" | "subject" | "object" *)
(*   nsub      number of subject layers (the statement allows exactly one)        *)
(*   obj       an object layer has been named                                     *)
(*   verbs     behaviour verbs called so far                                      *)
(*   acc/exc   an access type / an '... except ...' access type was chosen         *)
(*   any       one of the 'any layer' aliases was used                            *)
(*   mixed     explicit object layers / except forms combined with the alias      *)
(* Only calls the builder has to accept (ACCEPT) or may accept (FREE) lead to a   *)
(* successor state; hist records them, so two call sequences are never merged     *)
(* and every model state can be replayed on the implementation                    *)
(* (mc/conform_layerrule_tla.py).  For every state the model publishes            *)
(*   ClassOf(a)  what the statement of C16 demands of the next call a:            *)
(*               REJECT (configuration error), ACCEPT, FREE, DONT (not covered)   *)
(*   Terminal    what C13 promises for assert_applies in that state:              *)
(*               MUST_ERROR / COMPLETE / DONT_CARE                                *)
EXTENDS Sequences, Naturals, FiniteSets, TLC, Json

CONSTANTS Singles, PairBatches, OneBatches, Verbs, PlainAccess, ExceptAccess, Anys, MaxDepth

VARIABLES arch, rule, phase, nsub, obj, verbs, acc, exc, any, mixed, hist

vars == <<arch, rule, phase, nsub, obj, verbs, acc, exc, any, mixed, hist>>

(* PairBatches: are_named([x, y]); OneBatches: are_named([x]) - a list with a single layer *)
Batches == PairBatches \cup OneBatches
Actions == {"based_on", "layers_that"} \cup Singles \cup Batches \cup Verbs
           \cup PlainAccess \cup ExceptAccess \cup Anys

Init ==
    /\ arch = FALSE /\ rule = FALSE /\ phase = "none" /\ nsub = 0 /\ obj = FALSE
    /\ verbs = {} /\ acc = FALSE /\ exc = FALSE /\ any = FALSE /\ mixed = FALSE
    /\ hist = <<>>

(* ---- what the statement demands of the next call ---- *)
ClassOf(a) ==
    IF a = "based_on" THEN (IF arch THEN "DONT" ELSE "ACCEPT")
    ELSE IF ~arch THEN "REJECT"                    \* a layer rule needs an architecture first
    ELSE IF a = "layers_that" THEN "ACCEPT"        \* with an architecture given a rule may be started
    ELSE IF ~rule THEN "DONT"
    ELSE IF a \in Singles THEN
        (IF phase = "subject" THEN (IF nsub >= 1 THEN "REJECT" ELSE "ACCEPT") ELSE "FREE")
    ELSE IF a \in Batches THEN
        (IF phase = "subject" THEN (IF a \in PairBatches THEN "REJECT" ELSE "DONT") ELSE "FREE")
    ELSE "FREE"

Takes(a) == ClassOf(a) \in {"ACCEPT", "FREE"}

BasedOn ==
    /\ Takes("based_on")
    /\ arch' = TRUE
    /\ UNCHANGED <<rule, phase, nsub, obj, verbs, acc, exc, any, mixed>>
    /\ hist' = Append(hist, "based_on")

LayersThat ==
    /\ Takes("layers_that")
    /\ rule' = TRUE /\ phase' = "subject" /\ nsub' = 0 /\ obj' = FALSE /\ verbs' = {}
    /\ acc' = FALSE /\ exc' = FALSE /\ any' = FALSE /\ mixed' = FALSE
    /\ UNCHANGED arch
    /\ hist' = Append(hist, "layers_that")

Named(a) ==
    /\ Takes(a)
    /\ IF phase = "subject"
         THEN nsub' = nsub + 1 /\ UNCHANGED <<obj, mixed>>
         ELSE obj' = TRUE /\ mixed' = (mixed \/ any) /\ UNCHANGED nsub
    /\ UNCHANGED <<arch, rule, phase, verbs, acc, exc, any>>
    /\ hist' = Append(hist, a)

Verb(v) ==
    /\ Takes(v)
    /\ verbs' = verbs \cup {v}
    /\ UNCHANGED <<arch, rule, phase, nsub, obj, acc, exc, any, mixed>>
    /\ hist' = Append(hist, v)

Access(t, isExcept) ==
    /\ Takes(t)
    /\ phase' = "object" /\ acc' = TRUE /\ exc' = (exc \/ isExcept) /\ mixed' = (mixed \/ any)
    /\ UNCHANGED <<arch, rule, nsub, obj, verbs, any>>
    /\ hist' = Append(hist, t)

AnyLayer(a) ==
    /\ Takes(a)
    /\ phase' = "object" /\ acc' = TRUE /\ any' = TRUE /\ mixed' = (mixed \/ obj \/ exc)
    /\ UNCHANGED <<arch, rule, nsub, obj, verbs, exc>>
    /\ hist' = Append(hist, a)

Next ==
    /\ Len(hist) < MaxDepth
    /\ \/ BasedOn
       \/ LayersThat
       \/ \E a \in Singles \cup Batches : Named(a)
       \/ \E v \in Verbs : Verb(v)
       \/ \E t \in PlainAccess : Access(t, FALSE)
       \/ \E t \in ExceptAccess : Access(t, TRUE)
       \/ \E a \in Anys : AnyLayer(a)

Spec == Init /\ [][Next]_vars

(* ---- what assert_applies may do in this state (C13) ---- *)
Incomplete == ~arch \/ ~rule \/ nsub = 0 \/ verbs = {} \/ ~acc \/ (~obj /\ ~any)
Contradictory ==
    \/ (any /\ verbs # {"should_not"})
    \/ ("should_not" \in verbs /\ Cardinality(verbs) > 1)
Terminal ==
    IF Incomplete \/ Contradictory THEN "MUST_ERROR"
    ELSE IF Cardinality(verbs) = 1 /\ ~mixed THEN "COMPLETE"
    ELSE "DONT_CARE"

(* ---- invariants of the specification itself ---- *)
TypeOK ==
    /\ arch \in BOOLEAN /\ rule \in BOOLEAN /\ obj \in BOOLEAN /\ acc \in BOOLEAN
    /\ exc \in BOOLEAN /\ any \in BOOLEAN /\ mixed \in BOOLEAN
    /\ phase \in {"none", "subject", "object"} /\ nsub \in 0..1 /\ verbs \subseteq Verbs
RuleNeedsArchitecture == rule => arch
ExactlyOneSubjectLayer == nsub <= 1 /\ (phase = "object" /\ Terminal = "COMPLETE" => nsub = 1)
ObjectAfterAccessType == (obj => acc) /\ (acc <=> phase = "object") /\ ((exc \/ any) => acc)
CompleteIsWellFormed ==
    Terminal = "COMPLETE" =>
        /\ arch /\ rule /\ nsub = 1 /\ acc /\ Cardinality(verbs) = 1 /\ (obj \/ any)
        /\ (any => verbs = {"should_not"} /\ ~obj /\ ~exc)
(* whatever has been built, a call other than based_on is never acceptable without an architecture *)
NothingWithoutArchitecture == ~arch => \A a \in Actions \ {"based_on"} : ClassOf(a) = "REJECT"

(* every distinct state is written out for the conformance replay *)
Dump == PrintT(<<"STATE", ToJson([hist |-> hist, term |-> Terminal, cls |-> [a \in Actions |-> ClassOf(a)]])>>)
=================================================================================
