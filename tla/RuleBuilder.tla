------------------------------ MODULE RuleBuilder ------------------------------
(* Protocol model of the fluent Rule builder (property C13, part a).              *)
(* The state records which parts of a rule specification have been supplied:      *)
(*   nxt       which side the next module filter fills: "none" | "S" | "O"         *)
(*   subj/obj  a subject / an explicit object filter has been given                *)
(*   verbs     set of behaviour verbs called so far                                *)
(*   imp       an import type (or an 'anything' alias) has been chosen             *)
(*   exc       an '... except ...' import type has been chosen                     *)
(*   anything  one of the 'anything' aliases has been used                         *)
(*   mixed     explicit objects / except forms were combined with 'anything'       *)
(* hist records every call, so two call sequences are never merged and every      *)
(* model state can be replayed on the implementation (mc/conform_rule_tla.py).    *)
(* Class is what the documentation promises for assert_applies in that state:     *)
(*   MUST_ERROR  incomplete or contradictory: never a verdict                      *)
(*   COMPLETE    a well-formed rule: PASS or FAIL                                  *)
(*   DONT_CARE   call sequences the documentation does not define                  *)
EXTENDS Sequences, Naturals, FiniteSets, TLC, Json

CONSTANTS Filters, Verbs, PlainImports, ExceptImports, Anythings, MaxDepth

VARIABLES nxt, subj, obj, verbs, imp, exc, anything, mixed, hist

vars == <<nxt, subj, obj, verbs, imp, exc, anything, mixed, hist>>

Init ==
    /\ nxt = "none" /\ subj = FALSE /\ obj = FALSE /\ verbs = {}
    /\ imp = FALSE /\ exc = FALSE /\ anything = FALSE /\ mixed = FALSE
    /\ hist = <<>>

ModulesThat ==
    /\ nxt' = "S"
    /\ UNCHANGED <<subj, obj, verbs, imp, exc, anything, mixed>>
    /\ hist' = Append(hist, "modules_that")

(* a module filter before any subject/object marker is rejected by the builder:   *)
(* the specification state does not change                                        *)
FilterEarly(f) ==
    /\ nxt = "none"
    /\ UNCHANGED <<nxt, subj, obj, verbs, imp, exc, anything, mixed>>
    /\ hist' = Append(hist, f)

FilterSubject(f) ==
    /\ nxt = "S"
    /\ subj' = TRUE
    /\ UNCHANGED <<nxt, obj, verbs, imp, exc, anything, mixed>>
    /\ hist' = Append(hist, f)

FilterObject(f) ==
    /\ nxt = "O"
    /\ obj' = TRUE
    /\ mixed' = (mixed \/ anything)
    /\ UNCHANGED <<nxt, subj, verbs, imp, exc, anything>>
    /\ hist' = Append(hist, f)

Verb(v) ==
    /\ verbs' = verbs \cup {v}
    /\ UNCHANGED <<nxt, subj, obj, imp, exc, anything, mixed>>
    /\ hist' = Append(hist, v)

ImportType(t, isExcept) ==
    /\ nxt' = "O"
    /\ imp' = TRUE
    /\ exc' = (exc \/ isExcept)
    /\ mixed' = (mixed \/ anything)
    /\ UNCHANGED <<subj, obj, verbs, anything>>
    /\ hist' = Append(hist, t)

Anything(a) ==
    /\ nxt' = "O"
    /\ imp' = TRUE
    /\ anything' = TRUE
    /\ mixed' = (mixed \/ obj \/ exc)
    /\ UNCHANGED <<subj, obj, verbs, exc>>
    /\ hist' = Append(hist, a)

Next ==
    /\ Len(hist) < MaxDepth
    /\ \/ ModulesThat
       \/ \E f \in Filters : FilterEarly(f) \/ FilterSubject(f) \/ FilterObject(f)
       \/ \E v \in Verbs : Verb(v)
       \/ \E t \in PlainImports : ImportType(t, FALSE)
       \/ \E t \in ExceptImports : ImportType(t, TRUE)
       \/ \E a \in Anythings : Anything(a)

Spec == Init /\ [][Next]_vars

Incomplete == ~subj \/ verbs = {} \/ ~imp \/ (~obj /\ ~anything)
Contradictory ==
    \/ (anything /\ verbs # {"should_not"})
    \/ ("should_not" \in verbs /\ Cardinality(verbs) > 1)

Class ==
    IF Incomplete \/ Contradictory THEN "MUST_ERROR"
    ELSE IF Cardinality(verbs) = 1 /\ ~mixed THEN "COMPLETE"
    ELSE "DONT_CARE"

(* ---- invariants of the specification itself ---- *)
TypeOK ==
    /\ nxt \in {"none", "S", "O"}
    /\ verbs \subseteq Verbs
    /\ subj \in BOOLEAN /\ obj \in BOOLEAN /\ imp \in BOOLEAN
    /\ exc \in BOOLEAN /\ anything \in BOOLEAN /\ mixed \in BOOLEAN
(* a side can only have been filled after its marker *)
FilledAfterMarker == (subj => nxt # "none") /\ (obj => imp) /\ (imp => nxt # "none")
(* a complete rule has exactly one verb, a subject, an import type and an object (or the alias) *)
CompleteIsWellFormed ==
    Class = "COMPLETE" =>
        /\ subj /\ imp /\ Cardinality(verbs) = 1 /\ (obj \/ anything)
        /\ (anything => verbs = {"should_not"} /\ ~obj /\ ~exc)
(* an except form or the alias implies an import type was chosen *)
ExceptImpliesImport == (exc \/ anything) => imp

(* every distinct state is written out for the conformance replay *)
Dump == PrintT(<<"STATE", ToJson([hist |-> hist, cls |-> Class])>>)
=================================================================================
