#!/bin/sh
# usage: tools/at_commit.sh <repo-commit> <command...>   runs the command with PTA_SRC pointing at a
# temporary worktree of /repo at that commit (under /dev/shm), then removes the worktree.
c="$1"; shift
d="/dev/shm/vrf-wt-$$"
git -C /repo worktree add -q --detach "$d" "$c" || exit 3
PTA_SRC="$d/src" "$@"; rc=$?
git -C /repo worktree remove --force "$d"
exit $rc
