#!/usr/bin/env python3
"""Regenerates /verif/MANIFEST.json from the table below (keeps the file valid at all times)."""

import json
import os

HERE = os.path.dirname(os.path.dirname(os.path.abspath(__file__)))

TRUSTED = (
    "Trusted: the reference models in mc/refmodel.py and mc/checks/*.py (independent set "
    "comprehensions written from the documentation), the enumerators in mc/spaces.py, CPython 3.12 "
    "in /venv. Bounds as printed per run and recorded in the evidence file."
)

# id -> (technique, level text, design ref, note)
CHECKS = {
    "C01": (
        "exhaustive enumeration of all realizable architectures within tree/edge bounds (several namings) x complete rule space incl. subject/object overlap and related batches, real assert_applies vs three-valued reference model",
        "Every architecture of Space A (complete import relations) and Space B (edge-bounded, iterated bound) is built with the real graph constructor and every rule of the bounded rule space is evaluated with the real Rule.assert_applies; each verdict is compared with an independent three-valued set-comprehension model. No sampling: the space is enumerated completely within the printed bounds.",
        "DESIGN.md §4 C01",
        TRUSTED + " Architectures are realizable ones (leaf importers); ambiguous documentation corners are counted, not judged.",
    ),
    "C03": (
        "exhaustive enumeration of architectures x rules; every failure message parsed with an anchored grammar and compared both ways with the model's violating sets; query methods compared with the model",
        "Same complete spaces as C01. Every AssertionError message produced by the real implementation is parsed line by line and the reported import set and missing-import lines are compared in both directions with the independent model (three-valued where the documentation admits two readings); the three EvaluableArchitecture query methods are compared with the model for every (subjects, objects) choice.",
        "DESIGN.md §4 C03",
        TRUSTED + " Message grammar as stated in the evidence assumptions; an unparsable line is itself a violation.",
    ),
    "C11": (
        "exhaustive enumeration of architectures x generated regex/glob families x rule shapes; differential against the harness-computed expansion; batches vs conjunction of single rules",
        "For every architecture in the bounds (under a collision-free and an adversarial naming) every regex / glob of a family generated from the architecture's own names is applied on either side of all 12 rule shapes with the real implementation and compared with the rule naming the harness-computed match list; empty match sets must raise, never give a verdict; every batch of 2-3 subjects/objects (related modules included) is compared with the conjunction of the single rules.",
        "DESIGN.md §4 C11",
        TRUSTED + " Differential: both sides run the real implementation; the expansion list itself is computed independently with re.match / the literal glob model.",
    ),
    "C12": (
        "exhaustive enumeration of architectures x all subject/object choices; algebraic laws checked between implementation outcomes (oracle-free), monotonicity over every addable edge",
        "For every architecture in the bounds and every choice of 1-2 subjects and objects (ancestor/descendant pairs included) the duality, negation, decomposition and alias laws are evaluated on the real implementation, and for every addable import edge between unrelated modules the monotonicity law is checked between G and G+e. Complete within the printed bounds.",
        "DESIGN.md §4 C12",
        TRUSTED + " No reference model: the laws relate implementation outcomes to each other.",
    ),
    "C05": (
        "exhaustive enumeration of architectures x layerings (name / regex / mixed definitions, shared definition object) x layer rules in every object order, also after re-application to a decoy architecture; real LayerRule.assert_applies vs layer model, messages with layer tags parsed and compared",
        "For every architecture in the bounds (collision-free and adversarial naming), every partition of every antichain of 2-4 modules into 2-4 layers (0-1 modules in no layer) is defined through the real LayeredArchitecture builder in four definition styles and every layer rule (12 shapes + 2 aliases, every subject layer, 1-2 object layers) is evaluated with the real implementation and compared with the independent layer model, verdict and parsed message.",
        "DESIGN.md §4 C05",
        TRUSTED + " Layer regexes match exactly their layer's modules; layer modules pairwise unrelated, as the property requires.",
    ),
    "C16": (
        "explicit-state BFS over builder call histories on the real objects (canonical-state dedup, fixpoint) + TLC models of both builder protocols (LayeredArchitecture, LayerRule) with every model state replayed against the implementation",
        "All call histories of the real LayeredArchitecture builder over an 18-action alphabet are explored breadth-first to the fixpoint (the reachable state space is finite) and all LayerRule histories to a depth bound; every transition executes the real method and is classified by an independent specification automaton (must-reject with ImproperlyConfigured at the call / must-accept with exactly the supplied definition). In addition both protocols are modelled in TLA+ (LayerBuilder.tla, LayerRuleBuilder.tla), TLC checks the well-formedness invariants on every reachable model state, and every model state's history is replayed on the implementation: enabled-in-model <=> accepted-by-implementation for every action of the LayeredArchitecture alphabet, and for LayerRule the model's class of every possible next call (must-reject / must-accept / free) must hold on the implementation and agree with the Python automaton.",
        "DESIGN.md §4 C16",
        TRUSTED + " TLC 1.8.0 for the model part; the model is bound to the code by replaying all of its states, not only counterexamples.",
    ),
    "C13": (
        "exhaustive enumeration of builder call histories (plain, no dedup, to a length bound) + BFS with canonical-state dedup to the fixpoint on the real Rule / LayerRule / DiagramRule objects, classified by an independent automaton; TLC models of the Rule and LayerRule builder protocols with every model state replayed against the implementation; exhaustive misspelling, empty-list and option-combination enumeration",
        "Every call history of the real Rule builder over its 14 fluent methods up to the length bound is executed and ended by assert_applies on two architectures; a BFS with canonical-state deduplication closes the reachable builder state space (fixpoint), so the MUST_ERROR => 'never a verdict' check covers histories of any length. The same is done for LayerRule and DiagramRule. The Rule and LayerRule protocols are also modelled in TLA+ (RuleBuilder.tla, LayerRuleBuilder.tla): TLC checks the models' invariants, every model state is replayed on the real builder, its terminal class must agree with the Python automaton and a MUST_ERROR state never yields a verdict. Every architecture x rule shape x position x misspelling (also below the level limit), every never-matching regex and every invalid entry-point option combination must raise and never give a verdict.",
        "DESIGN.md §4 C13",
        TRUSTED + " Only MUST_ERROR histories are enforced; everything the property does not name is don't-care.",
    ),
    "C06": (
        "deviation-bounded exhaustive generation of diagram texts in the documented subset, each parsed by the real PumlParser and compared with the generator's ground truth; every ordered pair of a pool of small diagrams parsed back to back",
        "For every set of up to 3 (thorough: 4) components, every dependency relation over them and every combination of at most D deviations from the default textual form (declaration form, arrow form, reference form per arrow end, line order, noise outside the tags) the diagram is written to a file and parsed with the real PumlParser; modules and relation must equal the generator's ground truth; files without start/end tag must raise PumlParsingError.",
        "DESIGN.md §4 C06",
        TRUSTED + " Only the documented PlantUML subset is generated; the deviation bound D is reported.",
    ),
    "C17": (
        "exhaustive enumeration of module trees x alias maps x keyword combinations; drawing backend intercepted; labels compared with the label model",
        "For every tree shape in the bound under collision-free, adversarial and non-ASCII naming and every alias map with up to k keys (alias strings including regex metacharacters and dots), visualize() is called on the real evaluable with the drawing backend replaced by a recorder; labels, node coverage, pos for spacing and pass-through keywords are compared with the model; unknown alias keys must raise naming the key.",
        "DESIGN.md §4 C17",
        TRUSTED + " networkx.draw_networkx is replaced by a recorder at the module attribute pytestarch imports.",
    ),
    "C02": (
        "exhaustive enumeration of statement-list position chains (alphabet introspected from the ast grammar) x import forms x importer kinds as real files scanned by the real entry point; plus every (importer, target, form, module_path) over a fixed skeleton",
        "Every chain of statement-list positions up to the nesting bound x every import form x three importer kinds is written as a real Python file into a real project on tmpfs (self-checked by parsing it back) and scanned with get_evaluable_architecture; every import statement must yield its edge and no edge may exist that no statement accounts for. Additionally every (importer file, target module, import form, module_path, spelling) combination over a 12-module skeleton is scanned on its own.",
        "DESIGN.md §4 C02",
        TRUSTED + " Tree assumptions A1-A4 (no dots in names, no symlinks, no file/dir stem clash, relative imports stay below root).",
    ),
    "C10": (
        "exhaustive enumeration of (layout, module_path, import-statement set, external option configuration) with real scans; externals model + differential against the default configuration",
        "For every module_path of a project layout on tmpfs, every set of up to k import statements from a pool built to collide textually with internal names and every external-option configuration (excluded / included / glob and regex exclusion tuples up to size 2 drawn from all external and internal names) the real entry point is executed; external modules and imports must equal the model, internal modules and imports must be identical to the model and to the default configuration.",
        "DESIGN.md §4 C10",
        TRUSTED + " One project layout with three module_path choices; patterns generated from names, not arbitrary regexes.",
    ),
    "C07": (
        "exhaustive enumeration of architectures x component sets x arrow relations x mode x naming; real DiagramRule on a written diagram file vs the conformance formula; aggregated message vs individually evaluated pairwise rules",
        "For every architecture in the bounds, every set of 2-4 pairwise unrelated components, every arrow relation over them, both rule modes and both naming options, the diagram is written to a file and the real DiagramRule.assert_applies is compared with the conformance formula over descendant sets; on failure the aggregated message must consist of exactly the lines of the individually failing generated rules, and both naming options must agree.",
        "DESIGN.md §4 C07",
        TRUSTED + " Diagrams are written in the canonical textual form; parsing variants are C06's business.",
    ),
    "C08": (
        "exhaustive string-space enumeration for the glob->regex conversion; exhaustive enumeration of small directory trees x exclusion tuples with real scans vs model and vs the unfiltered scan",
        "(a) every glob pattern over a 6-symbol alphabet up to the length bound x every subject string up to length 4 is converted with the real converter and matched with re.match against the literal glob model; (b) every directory tree with up to N entries (prefix-colliding and metacharacter names) and feature trees x every exclusion tuple built from the entries in all glob and regex shapes is scanned with the real entry point and compared with the model and with the unfiltered real scan restricted to the survivors.",
        "DESIGN.md §4 C08",
        TRUSTED + " Import statements in these trees are plain absolute imports so that resolution does not depend on the survivors.",
    ),
    "C09": (
        "exhaustive enumeration of architectures x level limits: limited graph vs model quotient, verdict preservation over the antichain rule space; real scans with level_limit vs quotient of the unlimited real scan",
        "For every architecture in the bounds and every level limit k the graph built by the real constructor with level_limit=k is compared node-by-node and edge-by-edge with the model quotient, and every eligible rule of the antichain rule space is evaluated on both; real project trees are scanned with every module_path and every k and compared with the quotient of the unlimited scan (k counted from module_path).",
        "DESIGN.md §4 C09",
        TRUSTED + " Verdict preservation only for pairwise unrelated subject/object identifiers, as the property states.",
    ),
    "C04": (
        "exhaustive enumeration of small directory trees x every module_path x both entry points with real scans vs the scan model; differential sub-scan vs restricted root scan; seam equivalence of every Space A architecture written out as a tree",
        "Every directory tree with up to N entries (prefix-colliding names, packages with and without __init__.py) plus feature trees, placed below a neutral and below a same-named directory, is scanned with every directory as module_path through both entry points; modules, hierarchy edges and import edges are compared with the scan model, sub-directory scans with the restricted whole-root scan, and imports re-written relative to module_path's parent must still resolve. Every Space A architecture is also written out as a directory tree and the scanned graph must equal the graph built through the internal constructor used by the rule-level checks.",
        "DESIGN.md §4 C04",
        TRUSTED + " Tree assumptions A1-A4.",
    ),
    "C14": (
        "metamorphic exhaustive enumeration: every case of the rule, layer, label and scan spaces executed under the identity naming and under injective (collision-free and adversarial) renamings of path components; results compared after mapping names back",
        "Every (architecture, rule) case of the module-rule space (related subjects/objects included), every layer-rule case with name-defined layers, every plot-label case and every tree / externals scan case is executed under the identity naming and under four (thorough: five) injective renamings that make siblings and cousins string prefixes or substrings of each other, or differ from a nested module only in the separator; verdicts, parsed messages, layer tags, labels and module/edge sets must be equal up to the renaming. No reference model is involved except for plot labels.",
        "DESIGN.md §4 C14",
        TRUSTED + " Regex specifications and non-exact exclusion patterns are excluded, as the property implies.",
    ),
    "C15": (
        "explicit-state BFS over evaluation histories on shared evaluables / shared rule objects with canonical hidden-state dedup (every transition compared with the fresh result) + all ordered pairs and bounded histories without dedup; exhaustive permutation of list arguments and of directory enumeration order (Path.iterdir scheduler); one battery per hash seed in fresh interpreters",
        "History independence is explored as a state space: for every architecture of the bound and the full rule pool a BFS over 'evaluate rule i' histories runs on one shared evaluable, deduplicating on the canonical form of the evaluable's complete attribute state plus all module/class-level state of the loaded pytestarch modules; every transition's (verdict, message) must equal the result on fresh objects and the observable graph must stay unchanged. The same is done for every shared rule object over a pool of evaluables with different module sets, and for a mixed pool of shared module/layer/diagram rules (sharing one LayeredArchitecture) to the fixpoint. The dedup abstraction is validated by no-dedup passes (long histories, all ordered pairs, all histories up to the length bound). Order independence: every permutation of subject/object/layer/module/object-layer lists and exclusion tuples, and every permutation of directory entries at every directory through a scheduler that replaces Path.iterdir. Hash seeds: the same battery in one fresh interpreter per seed, digests compared case by case.",
        "DESIGN.md §4 C15",
        TRUSTED + " Only the enumerated hash seeds are covered; set iteration order inside one process is not controlled directly, only through the seeds and through renamings. Real OS threads are not explored (the library creates none).",
    ),
}

PENDING = {}


def main():
    props = [json.loads(l) for l in open(os.path.join(HERE, "properties.jsonl"))]
    checks = []
    na = []
    for p in props:
        pid = p["id"]
        if pid in CHECKS:
            tech, text, ref, note = CHECKS[pid]
            checks.append(
                {
                    "property_id": pid,
                    "quick_cmd": f"/venv/bin/python -m mc.run {pid} --tier quick",
                    "thorough_cmd": f"/venv/bin/python -m mc.run {pid} --tier thorough",
                    "evidence_file": f"/verif/evidence/{pid}.json",
                    "replay_cmd_template": "/venv/bin/python /verif/replay.py {path}",
                    "engine": "mc",
                    "level_claimed": {"category": "model_checking", "text": text, "design_ref": ref},
                    "level_note": note,
                    "technique": tech,
                }
            )
        else:
            na.append(
                {
                    "property_id": pid,
                    "reason": PENDING.get(
                        pid,
                        "not claimed yet: the bounded-exhaustive check for this property is designed (DESIGN.md §4) but not built at this commit",
                    ),
                }
            )
    manifest = {
        "version": 1,
        "setup_cmd": "cd /verif && /venv/bin/python -m compileall -q mc replay.py",
        "hooks": {
            "guard": "PYTESTARCH_VERIF",
            "enable": "no source hooks are needed: the harness imports /repo/src directly (PTA_SRC overrides) and replaces the two seams it must control (pathlib.Path.iterdir, networkxgraph.draw_networkx) from outside; the guard variable is set by the harness but read by no code in /repo",
            "baseline_off_cmd": "cd /repo && /venv/bin/python -m pytest -ra -q -p no:cacheprovider --timeout=900 --continue-on-collection-errors",
            "source_commits": [],
            "add_only": True,
        },
        "engines": [
            {
                "name": "mc",
                "path": "/verif/mc",
                "serves_properties": [c["property_id"] for c in checks],
                "kind_free_text": "hand-written explicit-state / bounded-exhaustive explorer in Python: enumerates input spaces, builder call histories (BFS with canonical-state dedup to fixpoint) and environment answers, executes the real implementation on every element and compares with reference models; TLC for the layer-builder protocol model with conformance replay",
            }
        ],
        "checks": checks,
        "not_applicable": na,
        "notes": "See /verif/DESIGN.md. Genuine defects found by the checks are repaired by 'fix:' commits in /repo and listed in /verif/known_findings.txt.",
    }
    with open(os.path.join(HERE, "MANIFEST.json"), "w") as f:
        json.dump(manifest, f, indent=1)
        f.write("\n")


if __name__ == "__main__":
    main()
