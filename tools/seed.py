#!/usr/bin/env python3
"""Seeded-change workflow.

  tools/seed.py verify <src-dir> <k> <ID>     verify sub-agent output m<k>.* from <src-dir> in a scratch
                                              worktree of /repo HEAD (suite unchanged, demo fails with / passes
                                              without) and copy it to /verif/seeded/<ID>-m<k>/
  tools/seed.py run <name> [checks...]        run quick checks (default: the seeded property's check) against
                                              seeded/<name> in a scratch worktree via PTA_SRC; records result.json
  tools/seed.py run-all [checks...]           the same for every seeded change
  tools/seed.py table                         print the detection matrix (markdown)

Scratch worktrees live under /dev/shm and are removed afterwards; nothing is ever applied to /repo here.
"""

import glob
import json
import os
import re
import subprocess
import sys

VERIF = os.path.dirname(os.path.dirname(os.path.abspath(__file__)))
PY = "/venv/bin/python"
EXPECT = "5 failed, 851 passed"


def sh(cmd, **kw):
    return subprocess.run(cmd, shell=True, capture_output=True, text=True, **kw)


def worktree(tag, commit="HEAD"):
    d = f"/dev/shm/vrf-seed-{tag}-{os.getpid()}"
    r = sh(f"git -C /repo worktree add -q --detach {d} {commit}")
    if r.returncode:
        raise SystemExit(r.stderr)
    return d


def drop(d):
    sh(f"git -C /repo worktree remove --force {d}")


def verify(src, k, pid, commit="HEAD"):
    patch, demo, notes = (os.path.join(src, f"m{k}{s}") for s in (".patch", "_demo.py", "_notes.md"))
    for f in (patch, demo):
        if not os.path.exists(f):
            raise SystemExit(f"missing {f}")
    d = worktree(f"{pid}m{k}", commit)
    try:
        env = dict(os.environ, PYTHONPATH=f"{d}/src")
        base_demo = sh(f"{PY} {demo}", env=env, cwd="/dev/shm")
        ap = sh(f"git -C {d} apply {patch}")
        if ap.returncode:
            print("PATCH DOES NOT APPLY:", ap.stderr[:300])
            return False
        touched = sh(f"git -C {d} status --porcelain").stdout.split("\n")
        only_src = all((not l.strip()) or l[3:].startswith("src/") for l in touched)
        suite = sh(f"cd {d} && {PY} -m pytest -q -p no:cacheprovider --deselect tests/test_architecture.py 2>&1 | tail -1", env=env).stdout.strip()
        mut_demo = sh(f"{PY} {demo}", env=env, cwd="/dev/shm")
        ok = base_demo.returncode == 0 and mut_demo.returncode != 0 and EXPECT in suite and only_src
        print(f"{pid} m{k}: demo-unchanged={base_demo.returncode} demo-mutant={mut_demo.returncode} suite='{suite}' only_src={only_src} -> {'KEEP' if ok else 'REJECT'}")
        if not ok:
            return False
        out = os.path.join(VERIF, "seeded", f"{pid}-m{k}")
        os.makedirs(out, exist_ok=True)
        sh(f"cp {patch} {out}/patch.diff; cp {demo} {out}/demo.py; [ -f {notes} ] && cp {notes} {out}/notes.md")
        meta = {
            "property": pid,
            "origin": "independent sub-agent given only the property text and a scratch worktree",
            "needs_to_manifest": open(notes).read().strip() if os.path.exists(notes) else "",
            "verified": {
                "repo_commit": sh(f"git -C /repo rev-parse --short {commit}").stdout.strip(),
                "suite_with_change": suite,
                "demo_exit_unchanged": base_demo.returncode,
                "demo_exit_with_change": mut_demo.returncode,
                "commands": [
                    "git worktree add <scratch> HEAD; git apply patch.diff",
                    "PYTHONPATH=<scratch>/src /venv/bin/python -m pytest -q -p no:cacheprovider --deselect tests/test_architecture.py",
                    "PYTHONPATH=<scratch>/src /venv/bin/python demo.py",
                ],
            },
        }
        json.dump(meta, open(os.path.join(out, "meta.json"), "w"), indent=1)
        return True
    finally:
        drop(d)


def run(name, checks):
    sd = os.path.join(VERIF, "seeded", name)
    meta = json.load(open(os.path.join(sd, "meta.json")))
    checks = checks or [meta["property"]]
    d = worktree(name)
    base = "HEAD"
    try:
        ap = sh(f"git -C {d} apply {sd}/patch.diff")
        if ap.returncode:
            # the seeded change was written against an earlier commit: use that tree
            drop(d)
            base = meta["verified"]["repo_commit"]
            d = worktree(name, base)
            ap = sh(f"git -C {d} apply {sd}/patch.diff")
            if ap.returncode:
                print(name, "PATCH DOES NOT APPLY", ap.stderr[:200])
                return
        rp = os.path.join(sd, "result.json")
        # a change written against an earlier commit may have been neutralised by a later repair of
        # /repo: it only counts if its own demonstration still fails on the tree it is applied to
        demo = sh(f"{PY} {sd}/demo.py", env=dict(os.environ, PYTHONPATH=f"{d}/src"), cwd="/dev/shm")
        if demo.returncode == 0:
            print(f"{name}: demonstration passes on {base}+patch -> change no longer breaks the property (neutralised by a later repair); not run")
            json.dump({"seeded": name, "property": meta["property"], "applied_on": base, "obsolete": True, "checks": {}}, open(rp, "w"), indent=1)
            return
        results = {}
        if os.path.exists(rp):
            results = json.load(open(rp)).get("checks", {})
        for c in checks:
            if not os.path.exists(os.path.join(VERIF, "mc", "checks", c.lower() + ".py")):
                continue
            env = dict(os.environ, PTA_SRC=f"{d}/src", VERIF_EVIDENCE_DIR=f"{d}/.evidence", VERIF_REPLAY_DIR=f"{d}/.replays")
            r = sh(f"{PY} -m mc.run {c} --tier quick", env=env, cwd=VERIF)
            viol = [l for l in r.stdout.split("\n") if l.startswith("VIOLATION") or l.startswith("  kind=")]
            results[c] = {"exit": r.returncode, "violations": len([l for l in viol if l.startswith("VIOLATION")]),
                          "first": [re.sub(r"replay=\S+", "", l).strip() for l in viol[:4]],
                          "fault": [l for l in r.stdout.split("\n") if "FAULT" in l][:2]}
            print(f"{name} {c}: exit={r.returncode} violations={results[c]['violations']} {results[c]['first'][1:2]}")
        json.dump({"seeded": name, "property": meta["property"], "applied_on": base, "checks": results}, open(rp, "w"), indent=1)
    finally:
        drop(d)


def table():
    rows = []
    for rp in sorted(glob.glob(os.path.join(VERIF, "seeded", "*", "result.json"))):
        r = json.load(open(rp))
        if r.get("obsolete"):
            rows.append(f"| {r['seeded']} | {r['property']} | obsolete: demonstration no longer fails on the repaired tree | | |")
            continue
        own = r["checks"].get(r["property"], {})
        others = [c for c, v in r["checks"].items() if c != r["property"] and v["exit"] == 1]
        rows.append(f"| {r['seeded']} | {r['property']} | {'caught' if own.get('exit') == 1 else 'MISSED' if own else 'n/a'} "
                    f"| {', '.join(others)} | {(own.get('first') or ['', ''])[1][:110] if own.get('exit') == 1 else ''} |")
    print("| seeded change | property | own check | also caught by | first violation |\n|---|---|---|---|---|")
    print("\n".join(rows))


if __name__ == "__main__":
    cmd = sys.argv[1]
    if cmd == "verify":
        sys.exit(0 if verify(sys.argv[2], sys.argv[3], sys.argv[4], *(sys.argv[5:6])) else 1)
    elif cmd == "run":
        run(sys.argv[2], sys.argv[3:])
    elif cmd == "run-all":
        for sd in sorted(glob.glob(os.path.join(VERIF, "seeded", "*"))):
            if os.path.isdir(sd):
                run(os.path.basename(sd), sys.argv[2:])
    elif cmd == "table":
        table()
