#!/bin/sh
# Quick regression run of the repository suite in a checkout (default /repo):
# tests/test_architecture.py is deselected because its session fixture loops forever when the
# checkout directory is not called "pytestarch" (those 5 tests are in the baseline's always-fail set).
# Expected on a healthy tree: "5 failed, 851 passed".
dir="${1:-/repo}"
cd "$dir" && /venv/bin/python -m pytest -q -p no:cacheprovider --deselect tests/test_architecture.py 2>&1 | tail -1
