#!/bin/sh
# Runs the thorough tier of the given checks (default: all, cheapest first) one after the other and prints one
# line per check (exit code, wall time, alarms).  Meant for `vp run -- tools/thorough_all.sh` in the background;
# VERIF_PROCS limits the worker processes.
ids="${*:-C16 C13 C04 C06 C08 C17 C02 C09 C10 C14 C07 C11 C15 C12 C05 C03 C01}"
for id in $ids; do
  s=$(date +%s)
  out=$(/venv/bin/python -m mc.run $id --tier thorough 2>&1); rc=$?
  e=$(date +%s)
  echo "$id thorough rc=$rc t=$((e-s))s $(echo "$out" | tail -1)"
  echo "$out" | grep -E 'VIOLATION|FAULT|KNOWN|kind=' | head -6
done
