#!/bin/sh
# validates MANIFEST.json and every evidence file against the given schemas
python3-vt - <<'PY'
import json, glob, jsonschema, sys
m = json.load(open('/verif/MANIFEST.json'))
jsonschema.validate(m, json.load(open('/root/.vp/MANIFEST.schema.json')))
s = json.load(open('/root/.vp/EVIDENCE.schema.json'))
bad = 0
for f in sorted(glob.glob('/verif/evidence/*.json')):
    try:
        jsonschema.validate(json.load(open(f)), s)
    except Exception as e:
        bad += 1; print('INVALID', f, str(e)[:300])
ids = {c['property_id'] for c in m['checks']} | {c['property_id'] for c in m.get('not_applicable', [])}
props = {json.loads(l)['id'] for l in open('/verif/properties.jsonl')}
assert ids == props, (ids ^ props)
print('manifest ok; checks=%d not_applicable=%d evidence_invalid=%d' % (len(m['checks']), len(m.get('not_applicable', [])), bad))
sys.exit(1 if bad else 0)
PY
