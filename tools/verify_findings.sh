#!/bin/sh
# For every "fixed:" line that names a replay file: the replay must report a violation on the
# parent of the fix commit and none on /repo's current tree.
cd /verif
rc=0
grep '^fixed:' known_findings.txt | while read -r line; do
  commit=$(echo "$line" | awk '{print $3}')
  replay=$(echo "$line" | sed -n 's/.*replay \(findings\/[^ ]*\.json\).*/\1/p')
  [ -z "$replay" ] && { echo "SKIP (no replay): $line"; continue; }
  tools/at_commit.sh "${commit}^" /venv/bin/python replay.py "$replay" >/dev/null 2>&1; before=$?
  /venv/bin/python replay.py "$replay" >/dev/null 2>&1; after=$?
  if [ "$before" = 1 ] && [ "$after" = 0 ]; then echo "ok   $commit $replay"; else echo "BAD  $commit $replay before=$before after=$after"; fi
done
