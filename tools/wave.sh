#!/bin/sh
# usage: tools/wave.sh <k1> <k2> <ID>...   verify sub-agent outputs /tmp/seedout/<ID>/m<k>.* , drop the agent's
# worktree /tmp/wt/<ID>, then run the property's quick check against each kept change
k1="$1"; k2="$2"; shift 2
cd /verif
for id in "$@"; do
  for k in $k1 $k2; do python3 tools/seed.py verify /tmp/seedout/$id $k $id 2>&1 | tail -1; done
  git -C /repo worktree remove --force /tmp/wt/$id 2>/dev/null
done
for id in "$@"; do
  for k in $k1 $k2; do [ -d seeded/$id-m$k ] && python3 tools/seed.py run $id-m$k 2>&1 | tail -1; done
done
